#!/usr/bin/env python3
"""Confirm a seeded change produced by a sub-agent and run the registered checks against it.

usage: seedtest.py <worktree> <name> <property> [<check-id> ...]

1. in the worktree: demo fails with the change, passes without it (git stash), test suite passes with it
2. copies patch.diff / demo / notes into /verif/seeded/<name>/
3. applies the patch to /repo, runs `check.py <id> quick` for every listed check, restores /repo
4. writes /verif/seeded/<name>/meta.json
"""
import json
import os
import shutil
import subprocess
import sys
import time

ROOT = os.path.dirname(os.path.abspath(__file__))


def sh(cmd, cwd=None, timeout=3600, env=None):
    r = subprocess.run(cmd, shell=True, cwd=cwd, capture_output=True, text=True, timeout=timeout, env=env)
    return r.returncode, r.stdout + r.stderr


def recheck(name, checks, note):
    out = os.path.join(ROOT, "seeded", name)
    meta = json.load(open(os.path.join(out, "meta.json")))
    env = dict(os.environ)
    if sh("git -C /repo status --porcelain")[1].strip():
        print("/repo is dirty; refusing")
        return 2
    rc, o = sh(f"git -C /repo apply {os.path.join(out, 'patch.diff')}")
    if rc != 0:
        print("patch does not apply:", o)
        return 2
    results = {}
    try:
        for c in checks:
            t0 = time.time()
            rc, o = sh(f"python3 check.py {c} quick", ROOT, env=env)
            lines = [l for l in o.splitlines() if l.startswith(("VIOLATION", "OK ", "KNOWN", "INFRA"))]
            results[c] = {"exit": rc, "wall_s": round(time.time() - t0, 1), "lines": lines[:6]}
            print(c, "exit", rc, lines[:2])
    finally:
        sh("git -C /repo checkout -- .")
    meta.setdefault("history", []).append({"first_result": meta.get("checks_against_change"), "first_caught_by": meta.get("caught_by"), "note": note})
    meta["checks_against_change"] = results
    meta["caught_by"] = [c for c, r in results.items() if r["exit"] == 1]
    json.dump(meta, open(os.path.join(out, "meta.json"), "w"), indent=1)
    sh("git checkout -- evidence", ROOT)
    print("caught by:", meta["caught_by"])
    return 0


def main():
    if sys.argv[1] == "--recheck":
        return recheck(sys.argv[2], sys.argv[4:], sys.argv[3])
    wt, name, prop = sys.argv[1], sys.argv[2], sys.argv[3]
    checks = sys.argv[4:] or [prop]
    skip_verify = os.environ.get("SEED_SKIP_VERIFY") == "1"
    sd = os.path.join(wt, "SEEDED")
    out = os.path.join(ROOT, "seeded", name)
    os.makedirs(out, exist_ok=True)
    meta = {"id": name, "property": prop, "worktree_commit": sh("git rev-parse HEAD", wt)[1].strip(), "ran": []}
    demo_rs = os.path.join(sd, "demo.rs")
    demo_sh = os.path.join(sd, "demo.sh")
    env = dict(os.environ)
    env["CARGO_NET_OFFLINE"] = "true"

    def run_demo():
        if os.path.exists(demo_rs):
            os.makedirs(os.path.join(wt, "tests"), exist_ok=True)
            shutil.copy(demo_rs, os.path.join(wt, "tests", "seeded_demo.rs"))
            feat = "--features verif " if "hpbf::verif" in open(demo_rs).read() else ""
            rc, o = sh(f"cargo test --offline {feat}--test seeded_demo 2>&1 | tail -15", wt, env=env)
            ok = "test result: ok" in o
            os.remove(os.path.join(wt, "tests", "seeded_demo.rs"))
            return ok, o[-1500:]
        rc, o = sh(f"bash {demo_sh} 2>&1", wt, env=env)
        return rc == 0, o[-1500:]

    if not skip_verify:
        # with the change
        ok_with, o1 = run_demo()
        meta["ran"].append({"cmd": "demo with the change", "passed": ok_with, "tail": o1[-400:]})
        rc, o = sh("cargo test --offline 2>&1 | grep -E '^test result|FAILED|panicked' | head", wt, env=env)
        suite_ok = "FAILED" not in o and "test result: ok. 186 passed" in o
        meta["ran"].append({"cmd": "cargo test --offline (with the change)", "passed": suite_ok, "tail": o[-400:]})
        # without the change
        # NB: git stash is shared between worktrees; reverse-apply the diff instead
        rc, diff = sh("git diff -- src Cargo.toml", wt)
        tmp_patch = os.path.join(out, "_tmp.patch")
        open(tmp_patch, "w").write(diff)
        sh(f"git apply -R {tmp_patch}", wt)
        ok_without, o2 = run_demo()
        sh(f"git apply {tmp_patch}", wt)
        os.remove(tmp_patch)
        meta["ran"].append({"cmd": "demo without the change (git apply -R)", "passed": ok_without, "tail": o2[-400:]})
        meta["confirmed"] = (not ok_with) and ok_without and suite_ok
        print(f"demo with change passes={ok_with} (want False); without={ok_without} (want True); suite ok={suite_ok}")
        if not meta["confirmed"]:
            json.dump(meta, open(os.path.join(out, "meta.json"), "w"), indent=1)
            print("NOT CONFIRMED")
            return 1
    for f in ("patch.diff", "demo.rs", "demo.sh", "notes.md"):
        p = os.path.join(sd, f)
        if os.path.exists(p):
            shutil.copy(p, os.path.join(out, f))
    # regenerate the patch from the worktree to be sure it matches
    rc, diff = sh("git diff -- src Cargo.toml", wt)
    open(os.path.join(out, "patch.diff"), "w").write(diff)
    # apply to /repo
    rc, o = sh(f"git -C /repo status --porcelain")
    if o.strip():
        print("/repo is dirty; refusing")
        return 2
    rc, o = sh(f"git -C /repo apply {os.path.join(out, 'patch.diff')}")
    if rc != 0:
        print("patch does not apply:", o)
        return 2
    results = {}
    try:
        for c in checks:
            t0 = time.time()
            rc, o = sh(f"python3 check.py {c} quick", ROOT, env=env)
            lines = [l for l in o.splitlines() if l.startswith(("VIOLATION", "OK ", "KNOWN", "INFRA"))]
            results[c] = {"exit": rc, "wall_s": round(time.time() - t0, 1), "lines": lines[:6]}
            print(c, "exit", rc, lines[:3])
    finally:
        sh("git -C /repo checkout -- .")
    meta["checks_against_change"] = results
    meta["caught_by"] = [c for c, r in results.items() if r["exit"] == 1]
    json.dump(meta, open(os.path.join(out, "meta.json"), "w"), indent=1)
    # restore evidence files touched by the runs against the seeded tree
    sh("git checkout -- evidence", ROOT)
    print("caught by:", meta["caught_by"])
    return 0


if __name__ == "__main__":
    sys.exit(main())
