//! The harness owns the global allocator.
//!
//! Modes (per process, chosen after fork):
//!  * PASS   – plain System, counting calls/bytes (always)
//!  * GUARD_RIGHT / GUARD_LEFT – every allocation made while ARMED is carved out of a private
//!    PROT_NONE arena, surrounded by inaccessible pages, flush against the right (overruns fault
//!    on the first byte) or the left (underruns fault on the first byte) guard. Freed blocks go
//!    back to PROT_NONE and their addresses are never reused, so stale pointers fault too.
//!  * FAIL(k) – the k-th armed allocation returns null.

use std::alloc::{GlobalAlloc, Layout, System};
use std::sync::atomic::{AtomicBool, AtomicU32, AtomicU64, AtomicUsize, Ordering::Relaxed};

pub const PASS: u32 = 0;
pub const GUARD_RIGHT: u32 = 1;
pub const GUARD_LEFT: u32 = 2;
pub const FAIL: u32 = 3;

pub static MODE: AtomicU32 = AtomicU32::new(PASS);
pub static ARMED: AtomicBool = AtomicBool::new(false);
pub static ALLOCS: AtomicU64 = AtomicU64::new(0);
pub static FREES: AtomicU64 = AtomicU64::new(0);
pub static BYTES: AtomicU64 = AtomicU64::new(0);
pub static LIVE_BYTES: AtomicU64 = AtomicU64::new(0);
pub static ARMED_ALLOCS: AtomicU64 = AtomicU64::new(0);
pub static FAIL_AT: AtomicU64 = AtomicU64::new(0);
pub static FAILED_SIZE: AtomicU64 = AtomicU64::new(0);
pub static GUARD_ALLOCS: AtomicU64 = AtomicU64::new(0);

const ARENA_BYTES: usize = 48 << 30;
const PAGE: usize = 4096;
static ARENA_BASE: AtomicUsize = AtomicUsize::new(0);
static ARENA_NEXT: AtomicUsize = AtomicUsize::new(0);

pub struct Hv;

// Under Miri the interpreter's own allocator stays in place: it checks every deallocation against
// the layout of the allocation (a forwarding allocator would hide that behind malloc/free).
#[cfg_attr(not(miri), global_allocator)]
pub static GLOBAL: Hv = Hv;

/// Side table for the guard arena: layout of the block that starts in each arena page (blocks never
/// share a data area). `dealloc` / `realloc` with another layout than the allocation's is a violation
/// of the allocator contract that malloc/free would swallow silently; it ends the child with 71.
static LAYOUT_TABLE: AtomicUsize = AtomicUsize::new(0);
pub const EXIT_BAD_LAYOUT: i32 = 71;

#[inline]
fn layout_word(layout: Layout) -> u64 {
    (layout.size() as u64 & ((1 << 56) - 1)) | ((layout.align().trailing_zeros() as u64) << 56)
}

unsafe fn layout_slot(data_start: usize) -> *mut u64 {
    let t = LAYOUT_TABLE.load(Relaxed);
    (t as *mut u64).add((data_start - ARENA_BASE.load(Relaxed)) / PAGE)
}

pub fn arena_init() {
    if ARENA_BASE.load(Relaxed) != 0 {
        return;
    }
    unsafe {
        let p = libc::mmap(
            std::ptr::null_mut(),
            ARENA_BYTES,
            libc::PROT_NONE,
            libc::MAP_PRIVATE | libc::MAP_ANONYMOUS | libc::MAP_NORESERVE,
            -1,
            0,
        );
        if p == libc::MAP_FAILED {
            libc::abort();
        }
        let t = libc::mmap(
            std::ptr::null_mut(),
            ARENA_BYTES / PAGE * 8,
            libc::PROT_READ | libc::PROT_WRITE,
            libc::MAP_PRIVATE | libc::MAP_ANONYMOUS | libc::MAP_NORESERVE,
            -1,
            0,
        );
        if t == libc::MAP_FAILED {
            libc::abort();
        }
        LAYOUT_TABLE.store(t as usize, Relaxed);
        ARENA_BASE.store(p as usize, Relaxed);
        ARENA_NEXT.store(p as usize, Relaxed);
    }
}

pub fn in_arena(addr: usize) -> bool {
    let b = ARENA_BASE.load(Relaxed);
    b != 0 && addr >= b && addr < b + ARENA_BYTES
}

#[inline]
fn round_up(n: usize, a: usize) -> usize {
    (n + a - 1) & !(a - 1)
}

unsafe fn guard_alloc(layout: Layout, left: bool) -> *mut u8 {
    arena_init();
    let n = layout.size().max(1);
    let data = round_up(n, PAGE).max(round_up(layout.align(), PAGE));
    // a request that cannot fit must not consume (or overflow) the arena cursor
    if n > ARENA_BYTES / 2 {
        return std::ptr::null_mut();
    }
    let total = data + 2 * PAGE;
    let start = ARENA_NEXT.fetch_add(total, Relaxed);
    if start + total > ARENA_BASE.load(Relaxed) + ARENA_BYTES {
        return std::ptr::null_mut();
    }
    let data_start = start + PAGE;
    if libc::mprotect(data_start as *mut _, data, libc::PROT_READ | libc::PROT_WRITE) != 0 {
        return std::ptr::null_mut();
    }
    GUARD_ALLOCS.fetch_add(1, Relaxed);
    *layout_slot(data_start) = layout_word(layout);
    if left {
        data_start as *mut u8
    } else {
        // flush right, respecting alignment
        let p = (data_start + data - n) & !(layout.align() - 1);
        p as *mut u8
    }
}

unsafe fn guard_free(ptr: *mut u8, layout: Layout) {
    // The block's data area is the run of accessible pages around ptr; its first page is the one
    // after the preceding guard page. Find it from the recorded layouts: walk down from ptr's page
    // to the nearest page with an entry (blocks are at most a few pages from their data start).
    {
        let base = ARENA_BASE.load(Relaxed);
        let mut page = (ptr as usize - base) / PAGE;
        let t = LAYOUT_TABLE.load(Relaxed) as *mut u64;
        let mut steps = 0usize;
        while *t.add(page) == 0 && page > 0 && steps < (1 << 22) {
            page -= 1;
            steps += 1;
        }
        let rec = *t.add(page);
        if rec != layout_word(layout) {
            let sh = crate::sys::shared();
            sh.fault_addr = ptr as u64;
            sh.fault_seen = 3;
            sh.scratch[13] = rec;
            sh.scratch[12] = layout_word(layout);
            libc::_exit(EXIT_BAD_LAYOUT);
        }
        *t.add(page) = 0;
    }
    // Both placements satisfy: end of data area == round_up(ptr + n, PAGE) (align <= PAGE).
    let n = layout.size().max(1);
    let data = round_up(n, PAGE).max(round_up(layout.align(), PAGE));
    let data_end = round_up(ptr as usize + n, PAGE);
    let data_start = data_end - data;
    libc::madvise(data_start as *mut _, data, libc::MADV_DONTNEED);
    libc::mprotect(data_start as *mut _, data, libc::PROT_NONE);
}

unsafe impl GlobalAlloc for Hv {
    unsafe fn alloc(&self, layout: Layout) -> *mut u8 {
        ALLOCS.fetch_add(1, Relaxed);
        BYTES.fetch_add(layout.size() as u64, Relaxed);
        LIVE_BYTES.fetch_add(layout.size() as u64, Relaxed);
        if ARMED.load(Relaxed) {
            let k = ARMED_ALLOCS.fetch_add(1, Relaxed) + 1;
            match MODE.load(Relaxed) {
                GUARD_RIGHT => return guard_alloc(layout, false),
                GUARD_LEFT => return guard_alloc(layout, true),
                FAIL => {
                    if k == FAIL_AT.load(Relaxed) {
                        FAILED_SIZE.store(layout.size() as u64, Relaxed);
                        crate::sys::shared().scratch[15] = layout.size() as u64;
                        crate::sys::shared().scratch[14] = 1;
                        return std::ptr::null_mut();
                    }
                }
                _ => {}
            }
        }
        System.alloc(layout)
    }

    unsafe fn alloc_zeroed(&self, layout: Layout) -> *mut u8 {
        ALLOCS.fetch_add(1, Relaxed);
        BYTES.fetch_add(layout.size() as u64, Relaxed);
        LIVE_BYTES.fetch_add(layout.size() as u64, Relaxed);
        if ARMED.load(Relaxed) {
            let k = ARMED_ALLOCS.fetch_add(1, Relaxed) + 1;
            match MODE.load(Relaxed) {
                // arena pages are fresh anonymous memory and never reused: already zero
                GUARD_RIGHT => return guard_alloc(layout, false),
                GUARD_LEFT => return guard_alloc(layout, true),
                FAIL => {
                    if k == FAIL_AT.load(Relaxed) {
                        FAILED_SIZE.store(layout.size() as u64 | (1 << 63), Relaxed);
                        crate::sys::shared().scratch[15] = layout.size() as u64;
                        crate::sys::shared().scratch[14] = 2;
                        return std::ptr::null_mut();
                    }
                }
                _ => {}
            }
        }
        System.alloc_zeroed(layout)
    }

    unsafe fn dealloc(&self, ptr: *mut u8, layout: Layout) {
        FREES.fetch_add(1, Relaxed);
        LIVE_BYTES.fetch_sub(layout.size() as u64, Relaxed);
        if in_arena(ptr as usize) {
            guard_free(ptr, layout);
        } else {
            System.dealloc(ptr, layout)
        }
    }

    unsafe fn realloc(&self, ptr: *mut u8, layout: Layout, new_size: usize) -> *mut u8 {
        // Always move: simplest way to keep guard placement exact.
        let new_layout = Layout::from_size_align_unchecked(new_size, layout.align());
        if !in_arena(ptr as usize) && !(ARMED.load(Relaxed) && MODE.load(Relaxed) != PASS) {
            ALLOCS.fetch_add(1, Relaxed);
            FREES.fetch_add(1, Relaxed);
            BYTES.fetch_add(new_size as u64, Relaxed);
            LIVE_BYTES.fetch_add(new_size as u64, Relaxed);
            LIVE_BYTES.fetch_sub(layout.size() as u64, Relaxed);
            return System.realloc(ptr, layout, new_size);
        }
        let new_ptr = self.alloc(new_layout);
        if !new_ptr.is_null() {
            std::ptr::copy_nonoverlapping(ptr, new_ptr, layout.size().min(new_size));
            self.dealloc(ptr, layout);
        }
        new_ptr
    }
}

pub fn counters() -> (u64, u64, u64, u64) {
    (ALLOCS.load(Relaxed), FREES.load(Relaxed), BYTES.load(Relaxed), LIVE_BYTES.load(Relaxed))
}

pub fn arm(on: bool) {
    ARMED.store(on, Relaxed);
}

pub fn set_mode(mode: u32) {
    if mode == GUARD_LEFT || mode == GUARD_RIGHT {
        arena_init();
    }
    MODE.store(mode, Relaxed);
}

// ---- fault handler --------------------------------------------------------------------------

extern "C" fn on_fault(sig: i32, info: *mut libc::siginfo_t, _ctx: *mut libc::c_void) {
    unsafe {
        let addr = (*info).si_addr() as usize;
        let sh = crate::sys::shared();
        sh.fault_addr = addr as u64;
        sh.fault_seen = if in_arena(addr) { 1 } else { 2 };
        sh.fault_block = sig as u64;
        libc::_exit(70);
    }
}

pub fn install_fault_handler() {
    unsafe {
        const ALT: usize = 1 << 16;
        let stack = libc::mmap(
            std::ptr::null_mut(),
            ALT,
            libc::PROT_READ | libc::PROT_WRITE,
            libc::MAP_PRIVATE | libc::MAP_ANONYMOUS,
            -1,
            0,
        );
        let ss = libc::stack_t { ss_sp: stack, ss_flags: 0, ss_size: ALT };
        libc::sigaltstack(&ss, std::ptr::null_mut());
        let mut sa: libc::sigaction = std::mem::zeroed();
        sa.sa_sigaction = on_fault as usize;
        sa.sa_flags = libc::SA_SIGINFO | libc::SA_ONSTACK;
        libc::sigemptyset(&mut sa.sa_mask);
        libc::sigaction(libc::SIGSEGV, &sa, std::ptr::null_mut());
        libc::sigaction(libc::SIGBUS, &sa, std::ptr::null_mut());
    }
}

/// Text for a child that ended with EXIT_BAD_LAYOUT.
pub fn bad_layout_text() -> String {
    let sh = crate::sys::shared();
    let d = |w: u64| format!("size {} align {}", w & ((1 << 56) - 1), 1u64 << (w >> 56));
    format!("block at {:#x} allocated with {} was deallocated / reallocated as {}", sh.fault_addr, d(sh.scratch[13]), d(sh.scratch[12]))
}
