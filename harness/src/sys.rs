//! Process isolation: shared-memory result slots, fork/wait with watchdog, logging I/O objects.

use std::io::{self, Read, Write};

pub const MAX_CFG: usize = 128;
pub const EV_CAP: usize = 4096;

pub const ST_NONE: u32 = 0;
pub const ST_RUNNING: u32 = 1;
pub const ST_RETURNED: u32 = 2;
pub const ST_PANICKED: u32 = 3;
pub const ST_CREATE_ERR: u32 = 4;
pub const ST_TRAP: u32 = 5;

/// Extra event codes (not part of the canonical alphabet).
pub const EV_REFUSED_OUT: u16 = 0x400; // | byte
pub const EV_FAILED_IN: u16 = 0x800;
pub const EV_BAD_REQUEST: u16 = 0x1000; // a read/write with a buffer length other than 1

#[repr(C)]
pub struct Slot {
    pub state: u32,
    /// bit0: finished flag (limited); bit1: execute returned Err
    pub flags: u32,
    pub n_events: u64,
    pub ev_hash: u64,
    pub aux: [u64; 8],
    pub msg_len: u32,
    pub msg: [u8; 200],
    pub events: [u16; EV_CAP],
}

#[repr(C)]
pub struct Shared {
    pub cur: u32,
    pub fault_seen: u32,
    pub fault_addr: u64,
    pub fault_block: u64,
    pub fault_block_len: u64,
    pub armed_allocs: u64,
    pub scratch: [u64; 16],
    /// coverage table: open addressing on key hash; persists across cases
    pub cover_hash: [u64; COVER_SLOTS],
    pub cover_count: [u64; COVER_SLOTS],
    pub cover_off: [u32; COVER_SLOTS],
    pub cover_text_len: usize,
    pub cover_text: [u8; COVER_TEXT],
    pub slots: [Slot; MAX_CFG],
}

pub const COVER_SLOTS: usize = 16384;
pub const COVER_TEXT: usize = 1 << 19;

/// Count one observation of `key` (child or parent; survives the child's death).
pub fn cover(key: &str) {
    cover_n(key, 1);
}

pub fn cover_n(key: &str, n: u64) {
    let sh = shared();
    let mut h = crate::rng::fnv64(key.as_bytes());
    if h == 0 {
        h = 1;
    }
    let mut i = (h as usize) % COVER_SLOTS;
    for _ in 0..COVER_SLOTS {
        if sh.cover_hash[i] == h {
            sh.cover_count[i] += n;
            return;
        }
        if sh.cover_hash[i] == 0 {
            let len = key.len() + 1;
            if sh.cover_text_len + len > COVER_TEXT {
                return;
            }
            let off = sh.cover_text_len;
            sh.cover_text[off..off + key.len()].copy_from_slice(key.as_bytes());
            sh.cover_text[off + key.len()] = 0;
            sh.cover_text_len += len;
            sh.cover_off[i] = off as u32;
            sh.cover_count[i] = n;
            sh.cover_hash[i] = h;
            return;
        }
        i = (i + 1) % COVER_SLOTS;
    }
}

/// All (key, count) pairs observed so far, sorted by key.
pub fn cover_dump() -> Vec<(String, u64)> {
    let sh = shared();
    let mut v = Vec::new();
    for i in 0..COVER_SLOTS {
        if sh.cover_hash[i] != 0 {
            let off = sh.cover_off[i] as usize;
            let end = off + sh.cover_text[off..].iter().position(|&b| b == 0).unwrap_or(0);
            v.push((String::from_utf8_lossy(&sh.cover_text[off..end]).to_string(), sh.cover_count[i]));
        }
    }
    v.sort();
    v
}

static mut SHARED: *mut Shared = std::ptr::null_mut();

pub fn shared() -> &'static mut Shared {
    unsafe {
        #[cfg(miri)]
        if SHARED.is_null() {
            let layout = std::alloc::Layout::new::<Shared>();
            SHARED = std::alloc::alloc_zeroed(layout) as *mut Shared;
        }
        if SHARED.is_null() {
            let len = std::mem::size_of::<Shared>();
            let p = libc::mmap(
                std::ptr::null_mut(),
                len,
                libc::PROT_READ | libc::PROT_WRITE,
                libc::MAP_SHARED | libc::MAP_ANONYMOUS,
                -1,
                0,
            );
            assert!(p != libc::MAP_FAILED, "mmap shared failed");
            SHARED = p as *mut Shared;
        }
        &mut *SHARED
    }
}

pub fn reset_shared() {
    let s = shared();
    s.cur = 0;
    s.fault_seen = 0;
    s.fault_addr = 0;
    s.fault_block = 0;
    s.fault_block_len = 0;
    s.armed_allocs = 0;
    s.scratch = [0; 16];
    for slot in s.slots.iter_mut() {
        slot.state = ST_NONE;
        slot.flags = 0;
        slot.n_events = 0;
        slot.ev_hash = 0xcbf29ce484222325;
        slot.aux = [0; 8];
        slot.msg_len = 0;
    }
}

impl Slot {
    #[inline]
    pub fn push(&mut self, ev: u16) {
        let n = self.n_events as usize;
        if n < EV_CAP {
            self.events[n] = ev;
        }
        self.n_events += 1;
        self.ev_hash = (self.ev_hash ^ ev as u64).wrapping_mul(0x100000001b3);
    }
    pub fn set_msg(&mut self, m: &str) {
        let b = m.as_bytes();
        let n = b.len().min(self.msg.len());
        self.msg[..n].copy_from_slice(&b[..n]);
        self.msg_len = n as u32;
    }
    pub fn get_msg(&self) -> String {
        String::from_utf8_lossy(&self.msg[..self.msg_len as usize]).to_string()
    }
    pub fn evs(&self) -> &[u16] {
        &self.events[..(self.n_events as usize).min(EV_CAP)]
    }
}

pub fn hash_events(evs: &[u16]) -> u64 {
    let mut h: u64 = 0xcbf29ce484222325;
    for &e in evs {
        h = (h ^ e as u64).wrapping_mul(0x100000001b3);
    }
    h
}

/// How the environment misbehaves.
#[derive(Clone, Copy, Debug, PartialEq)]
pub struct Fault {
    /// index (0-based) of the event that fails
    pub at: u64,
    /// true: the failing op returns Err; false: write returns Ok(0) / read returns Err
    pub err: bool,
    /// which io::ErrorKind an Err carries (index into FAULT_KINDS)
    pub kind: u8,
    /// true: only the operation at `at` fails, later ones would succeed (a correct back end never
    /// makes them); false: everything from `at` on fails
    pub once: bool,
}

pub const FAULT_KINDS: [io::ErrorKind; 6] =
    [io::ErrorKind::Other, io::ErrorKind::Interrupted, io::ErrorKind::WouldBlock, io::ErrorKind::BrokenPipe, io::ErrorKind::TimedOut, io::ErrorKind::UnexpectedEof];

impl Fault {
    pub fn plain(at: u64, err: bool) -> Self {
        Fault { at, err, kind: 0, once: false }
    }
    fn hits(&self, n_events: u64) -> bool {
        if self.once {
            n_events == self.at
        } else {
            n_events >= self.at
        }
    }
    fn error(&self, what: &'static str) -> io::Error {
        io::Error::new(FAULT_KINDS[self.kind as usize % FAULT_KINDS.len()], what)
    }
}

pub struct LogReader {
    pub slot: *mut Slot,
    pub data: Vec<u8>,
    pub pos: usize,
    pub fault: Option<Fault>,
}

pub struct LogWriter {
    pub slot: *mut Slot,
    pub fault: Option<Fault>,
}

impl Read for LogReader {
    fn read(&mut self, buf: &mut [u8]) -> io::Result<usize> {
        let slot = unsafe { &mut *self.slot };
        if buf.len() != 1 {
            slot.push(EV_BAD_REQUEST);
        }
        if let Some(f) = self.fault {
            if f.hits(slot.n_events) {
                slot.push(EV_FAILED_IN);
                return Err(f.error("injected read failure"));
            }
        }
        if self.pos < self.data.len() {
            let b = self.data[self.pos];
            self.pos += 1;
            slot.push(0x100 | b as u16);
            if !buf.is_empty() {
                buf[0] = b;
            }
            Ok(1)
        } else {
            slot.push(0x200);
            Ok(0)
        }
    }
}

impl Write for LogWriter {
    fn write(&mut self, buf: &[u8]) -> io::Result<usize> {
        let slot = unsafe { &mut *self.slot };
        if buf.len() != 1 {
            slot.push(EV_BAD_REQUEST);
        }
        let b = buf.first().copied().unwrap_or(0);
        if let Some(f) = self.fault {
            if f.hits(slot.n_events) {
                slot.push(EV_REFUSED_OUT | b as u16);
                return if f.err {
                    Err(f.error("injected write failure"))
                } else {
                    Ok(0)
                };
            }
        }
        slot.push(b as u16);
        Ok(1)
    }
    fn flush(&mut self) -> io::Result<()> {
        Ok(())
    }
}

#[derive(Clone, Copy, Debug, PartialEq)]
pub enum ChildEnd {
    Exit(i32),
    Signal(i32),
    /// watchdog fired (SIGALRM set by the child itself or kill by parent)
    Timeout,
}

/// Fork; run `f` in the child; the child `_exit`s with f's return code.
/// `wall_ms`: parent-side watchdog (0 = none). Child may additionally use alarm().
pub fn fork_run<F: FnOnce() -> i32>(wall_ms: u64, f: F) -> ChildEnd {
    unsafe {
        let pid = libc::fork();
        assert!(pid >= 0, "fork failed");
        if pid == 0 {
            let code = f();
            libc::_exit(code);
        }
        let start = std::time::Instant::now();
        let mut status: i32 = 0;
        if wall_ms == 0 {
            loop {
                let r = libc::waitpid(pid, &mut status, 0);
                if r == pid {
                    break;
                }
                if r < 0 && *libc::__errno_location() != libc::EINTR {
                    panic!("waitpid failed");
                }
            }
        } else {
            let mut sleep_us = 50u64;
            loop {
                let r = libc::waitpid(pid, &mut status, libc::WNOHANG);
                if r == pid {
                    break;
                }
                if start.elapsed().as_millis() as u64 >= wall_ms {
                    libc::kill(pid, libc::SIGKILL);
                    libc::waitpid(pid, &mut status, 0);
                    return ChildEnd::Timeout;
                }
                std::thread::sleep(std::time::Duration::from_micros(sleep_us));
                if sleep_us < 2000 {
                    sleep_us *= 2;
                }
            }
        }
        if libc::WIFEXITED(status) {
            ChildEnd::Exit(libc::WEXITSTATUS(status))
        } else if libc::WIFSIGNALED(status) {
            let sig = libc::WTERMSIG(status);
            if sig == libc::SIGALRM {
                ChildEnd::Timeout
            } else {
                ChildEnd::Signal(sig)
            }
        } else {
            ChildEnd::Exit(-1)
        }
    }
}

pub fn set_alarm(secs: u32) {
    unsafe {
        libc::alarm(secs);
    }
}

pub fn limit_address_space(bytes: u64) {
    unsafe {
        let lim = libc::rlimit { rlim_cur: bytes, rlim_max: bytes };
        libc::setrlimit(libc::RLIMIT_AS, &lim);
    }
}
