//! Minimal JSON writer (no external crates available offline).

pub fn esc(s: &str) -> String {
    let mut o = String::with_capacity(s.len() + 2);
    o.push('"');
    for c in s.chars() {
        match c {
            '"' => o.push_str("\\\""),
            '\\' => o.push_str("\\\\"),
            '\n' => o.push_str("\\n"),
            '\r' => o.push_str("\\r"),
            '\t' => o.push_str("\\t"),
            c if (c as u32) < 0x20 || (c as u32) > 0x7e => {
                let mut buf = [0u16; 2];
                for u in c.encode_utf16(&mut buf) {
                    o.push_str(&format!("\\u{:04x}", u));
                }
            }
            c => o.push(c),
        }
    }
    o.push('"');
    o
}

#[derive(Default)]
pub struct Obj {
    parts: Vec<String>,
}

impl Obj {
    pub fn new() -> Self {
        Obj { parts: Vec::new() }
    }
    pub fn s(mut self, k: &str, v: &str) -> Self {
        self.parts.push(format!("{}:{}", esc(k), esc(v)));
        self
    }
    pub fn n(mut self, k: &str, v: impl std::fmt::Display) -> Self {
        self.parts.push(format!("{}:{}", esc(k), v));
        self
    }
    pub fn b(mut self, k: &str, v: bool) -> Self {
        self.parts.push(format!("{}:{}", esc(k), v));
        self
    }
    pub fn raw(mut self, k: &str, v: &str) -> Self {
        self.parts.push(format!("{}:{}", esc(k), v));
        self
    }
    pub fn done(self) -> String {
        format!("{{{}}}", self.parts.join(","))
    }
}

pub fn arr<T: AsRef<str>>(items: &[T]) -> String {
    format!("[{}]", items.iter().map(|s| s.as_ref().to_string()).collect::<Vec<_>>().join(","))
}

pub fn hex(bytes: &[u8]) -> String {
    bytes.iter().map(|b| format!("{:02x}", b)).collect()
}

pub fn unhex(s: &str) -> Vec<u8> {
    (0..s.len() / 2).filter_map(|i| u8::from_str_radix(&s[2 * i..2 * i + 2], 16).ok()).collect()
}
