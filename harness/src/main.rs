//! hv — runtime monitors for hpbf. One sub-command per monitor family; `check.py` shards,
//! aggregates and writes evidence.

mod alloc;
mod bcref;
mod bcview;
#[cfg(not(miri))]
mod c13;
mod checks;
mod engine;
mod gen;
mod json;
mod props;
mod rng;
mod run;
mod spec;
mod sys;

use std::collections::HashMap;

pub struct Args {
    pub cmd: String,
    pub seed: u64,
    pub shard: u64,
    pub nshards: u64,
    pub count: u64,
    pub secs: u64,
    pub thorough: bool,
    pub out: String,
    pub replay_dir: String,
    pub corpus: String,
    pub kv: HashMap<String, String>,
}

impl Args {
    pub fn get(&self, k: &str) -> Option<&str> {
        self.kv.get(k).map(|s| s.as_str())
    }
    pub fn get_u64(&self, k: &str, d: u64) -> u64 {
        self.get(k).and_then(|s| s.parse().ok()).unwrap_or(d)
    }
}

fn parse_args() -> Args {
    let mut it = std::env::args().skip(1);
    let cmd = it.next().unwrap_or_else(|| "help".to_string());
    let mut kv = HashMap::new();
    let rest: Vec<String> = it.collect();
    let mut i = 0;
    while i < rest.len() {
        if let Some(k) = rest[i].strip_prefix("--") {
            if i + 1 < rest.len() && !rest[i + 1].starts_with("--") {
                kv.insert(k.to_string(), rest[i + 1].clone());
                i += 2;
            } else {
                kv.insert(k.to_string(), "1".to_string());
                i += 1;
            }
        } else {
            kv.insert(format!("arg{}", i), rest[i].clone());
            i += 1;
        }
    }
    let g = |k: &str, d: u64| kv.get(k).and_then(|s| s.parse().ok()).unwrap_or(d);
    Args {
        cmd,
        seed: g("seed", 1),
        shard: g("shard", 0),
        nshards: g("nshards", 1).max(1),
        count: g("count", 100),
        secs: g("secs", 3600),
        thorough: kv.get("tier").map(|s| s == "thorough").unwrap_or(false),
        out: kv.get("out").cloned().unwrap_or_else(|| "/dev/stdout".to_string()),
        replay_dir: kv.get("replay-dir").cloned().unwrap_or_else(|| "/verif/out/replays".to_string()),
        corpus: kv.get("corpus").cloned().unwrap_or_else(|| "/verif/corpus".to_string()),
        kv,
    }
}

fn main() {
    let args = parse_args();
    // Touch the shared region before any fork.
    let _ = sys::shared();
    let code = match args.cmd.as_str() {
        "diff" => checks::diff(&args),
        "one" => checks::one(&args),
        "gen" => checks::gen_dump(&args),
        "shrink" => checks::shrink_cmd(&args),
        "specdump" => checks::specdump(&args),
        "bcdump" => checks::bcdump(&args),
        "c17" => checks::c17(&args),
        "mdiff" => checks::mdiff(&args),
        "hunt" => checks::hunt(&args),
        #[cfg(not(miri))]
        "c13" => c13::c13(&args),
        #[cfg(not(miri))]
        "c13replay" => c13::c13_replay(&args),
        #[cfg(not(miri))]
        "c13growth" => c13::c13_growth(&args),
        "c12" => checks::c12(&args),
        "c11" => checks::c11(&args),
        "c11replay" => checks::c11_replay(&args),
        "c05" => checks::c05(&args),
        "c14" => props::c14(&args),
        "c15" => props::c15(&args),
        "c09" => props::c09(&args),
        "c09replay" => props::c09_replay(&args),
        "c18" => props::c18(&args),
        "c18replay" => props::c18_replay(&args),
        _ => {
            eprintln!("usage: hv <diff|one|gen|...> [--key value]...");
            2
        }
    };
    std::process::exit(code);
}
