//! Workload generators. Everything is deterministic in (seed, shard, index).

use crate::rng::Rng;

#[derive(Clone, Copy, PartialEq, Debug)]
pub enum Family {
    Grammar,
    Structured,
    Pressure,
    Roaming,
    Scan,
    Diverge,
    Mutant,
    Corpus,
}

impl Family {
    pub fn name(self) -> &'static str {
        match self {
            Family::Grammar => "grammar",
            Family::Structured => "structured",
            Family::Pressure => "pressure",
            Family::Roaming => "roaming",
            Family::Scan => "scan",
            Family::Diverge => "diverge",
            Family::Mutant => "mutant",
            Family::Corpus => "corpus",
        }
    }
}

/// Grammar-random programs: like the repository's own fuzzer but longer, with run lengths,
/// more loops and tunable I/O density.
pub fn grammar(rng: &mut Rng, max_len: usize) -> String {
    let mut s = String::new();
    let mut open = 0usize;
    let io_w = *rng.pick(&[1u32, 2, 4]);
    let loop_w = *rng.pick(&[2u32, 4, 6]);
    let w = [6, 5, 5, 5, io_w, io_w, loop_w, loop_w];
    while s.len() + open < max_len {
        match rng.weighted(&w) {
            0 => rep(&mut s, '+', rng.range(1, 4) as usize),
            1 => rep(&mut s, '-', rng.range(1, 4) as usize),
            2 => rep(&mut s, '<', rng.range(1, 3) as usize),
            3 => rep(&mut s, '>', rng.range(1, 3) as usize),
            4 => s.push(','),
            5 => s.push('.'),
            6 => {
                if open > 0 {
                    open -= 1;
                    s.push(']');
                }
            }
            _ => {
                if open < 6 {
                    s.push('[');
                    open += 1;
                }
            }
        }
    }
    for _ in 0..open {
        s.push(']');
    }
    s
}

fn rep(s: &mut String, c: char, n: usize) {
    for _ in 0..n {
        s.push(c);
    }
}

/// Pointer-disciplined builder: every idiom leaves the pointer at a statically known cell.
pub struct Builder<'a> {
    pub out: String,
    pub ptr: i64,
    pub rng: &'a mut Rng,
    pub ncells: i64,
    /// allow idioms that subtract below zero / rely on wrap (cheap only at 8/16 bit)
    pub wrap_ok: bool,
    pub budget: i64,
    /// 0: the plain idiom mix; 1: loops that are entered at least once (counted, strided, 2-adic)
    /// drawn four times as often
    pub focus: u8,
}

impl<'a> Builder<'a> {
    pub fn new(rng: &'a mut Rng, ncells: i64, wrap_ok: bool, budget: i64) -> Self {
        Builder { out: String::new(), ptr: 0, rng, ncells, wrap_ok, budget, focus: 0 }
    }
    pub fn goto(&mut self, c: i64) {
        while self.ptr < c {
            self.out.push('>');
            self.ptr += 1;
        }
        while self.ptr > c {
            self.out.push('<');
            self.ptr -= 1;
        }
    }
    pub fn cell(&mut self) -> i64 {
        self.rng.range(0, self.ncells - 1)
    }
    pub fn cell_not(&mut self, not: &[i64]) -> i64 {
        for _ in 0..32 {
            let c = self.cell();
            if !not.contains(&c) {
                return c;
            }
        }
        (not.iter().copied().max().unwrap_or(0) + 1).min(self.ncells)
    }
    pub fn add(&mut self, c: i64, v: i64) {
        self.goto(c);
        let ch = if v >= 0 { '+' } else { '-' };
        rep(&mut self.out, ch, v.unsigned_abs() as usize);
        self.budget -= v.abs();
    }
    pub fn clear(&mut self, c: i64) {
        self.goto(c);
        if self.wrap_ok && self.rng.chance(1, 6) {
            self.out.push_str("[+]");
        } else {
            self.out.push_str("[-]");
        }
        self.budget -= 3;
    }
    pub fn set(&mut self, c: i64, v: i64) {
        self.clear(c);
        self.add(c, v);
    }
    pub fn small_const(&mut self) -> i64 {
        let v = *self.rng.pick(&[1i64, 1, 1, 2, 2, 3, 4, 5, 7, 8]);
        if self.wrap_ok && self.rng.chance(1, 4) {
            -v
        } else {
            v
        }
    }
    /// A multiplier: mostly small, sometimes around the immediate-width boundaries of the back ends
    /// (signed / unsigned 8-bit: 127, 128, 129, 200, 255, 256, 257).
    pub fn mult_const(&mut self) -> i64 {
        if self.rng.chance(1, 12) {
            let v = *self.rng.pick(&[127i64, 128, 129, 160, 200, 255, 256, 257]);
            if self.wrap_ok && self.rng.chance(1, 4) {
                -v
            } else {
                v
            }
        } else {
            self.small_const()
        }
    }
    /// `src` is drained (by `step` per iteration) into the destinations with multipliers.
    pub fn drain(&mut self, src: i64, dsts: &[(i64, i64)], step: i64) {
        self.goto(src);
        self.out.push('[');
        if self.rng.chance(1, 2) {
            self.add(src, -step);
            for &(d, k) in dsts {
                self.add(d, k);
            }
        } else {
            for &(d, k) in dsts {
                self.add(d, k);
            }
            self.add(src, -step);
        }
        self.goto(src);
        self.out.push(']');
        self.budget -= 2;
    }
    /// dst += k * src, preserving src, using tmp (must be zero; left zero).
    pub fn add_mul(&mut self, dst: i64, src: i64, k: i64, tmp: i64) {
        self.drain(src, &[(dst, k), (tmp, 1)], 1);
        self.drain(tmp, &[(src, 1)], 1);
    }
    pub fn input(&mut self, c: i64) {
        self.goto(c);
        self.out.push(',');
        self.budget -= 1;
    }
    pub fn output(&mut self, c: i64) {
        self.goto(c);
        self.out.push('.');
        self.budget -= 1;
    }
}

/// Structured programs over a handful of cells.
pub fn structured(rng: &mut Rng, wrap_ok: bool, size: i64) -> String {
    let focus = rng.chance(1, 5) as u8;
    structured_with(rng, wrap_ok, size, focus)
}

/// `structured` with the at-least-once-loop focus always on (C05's halting population).
pub fn structured_once_loops(rng: &mut Rng, wrap_ok: bool, size: i64) -> String {
    structured_with(rng, wrap_ok, size, 1)
}

fn structured_with(rng: &mut Rng, wrap_ok: bool, size: i64, focus: u8) -> String {
    let hi_cells = if rng.chance(1, 4) { 14 } else { 7 };
    let ncells = rng.range(3, hi_cells);
    let mut b = Builder::new(rng, ncells, wrap_ok, size);
    b.focus = focus;
    // Seed some cells from input or constants.
    let nseed = b.rng.range(1, 3);
    for _ in 0..nseed {
        let c = b.cell();
        if b.rng.chance(1, 2) {
            b.input(c);
        } else {
            let v = b.rng.range(1, 6);
            b.add(c, v);
        }
    }
    block(&mut b, 0, &mut Vec::new());
    // Print everything that might be interesting.
    let nout = b.rng.range(1, 4);
    for _ in 0..nout {
        let c = b.cell();
        b.output(c);
    }
    if b.rng.chance(1, 3) {
        for c in 0..b.ncells {
            b.output(c);
        }
    }
    b.out
}

/// Generate a sequence of idioms; `protected` are loop counters of enclosing loops.
fn block(b: &mut Builder, depth: u32, protected: &mut Vec<i64>) {
    let n = b.rng.range(1, if depth == 0 { 7 } else { 4 });
    for _ in 0..n {
        if b.budget <= 0 {
            break;
        }
        stmt(b, depth, protected);
    }
}

fn stmt(b: &mut Builder, depth: u32, protected: &mut Vec<i64>) {
    let deep = depth >= 3;
    let w: [u32; 21] = [
        8,                          // 0 add const
        3,                          // 1 clear / set
        8,                          // 2 drain with multipliers
        8,                          // 3 add_mul via temp
        if deep { 0 } else { 8 },   // 4 counted loop (const / input / current value)
        4,                          // 5 output
        2,                          // 6 input
        if deep { 0 } else { 4 },   // 7 if idiom
        3,                          // 8 geometric x = k*x + c
        3,                          // 9 swap / rotate through temp
        2,                          // 10 x += y; y = x  (doubling pair)
        if deep { 0 } else { 2 },   // 11 loop with non-unit step
        1,                          // 12 raw grammar snippet (balanced, pointer-neutral)
        if deep { 0 } else { 2 },   // 13 loop whose counter is also modified in the body
        4,                          // 14 product / square: dst += a*b (a may equal b), operands maybe cleared afterwards
        if protected.is_empty() { 0 } else { 5 }, // 15 conditional write to an enclosing loop's own condition cell, then a loop on it
        3,                          // 16 conditional (input dependent) write to a cell, then use of that cell
        if deep { 0 } else { 2 },   // 17 loop on a cell that an inner if may have zeroed, with output inside
        4,                          // 18 strided loop on (copy of a cell + constant): symbolic 2-adic trip counts, results to 1-2 cells
        if depth >= 2 { 0 } else { 4 }, // 19 the same expression over two cells computed before and inside two sibling loops (value numbering across loops)
        if depth >= 2 { 0 } else { 3 }, // 20 triangular sums: constant trip count n, lin += a, acc += k*lin (closed forms in n*(n-1)/2)
    ];
    let mut w = w;
    if b.focus == 1 {
        for i in [4usize, 11, 13, 18] {
            w[i] *= 4;
        }
    }
    match b.rng.weighted(&w) {
        0 => {
            let c = b.cell_not(protected);
            let v = b.small_const();
            b.add(c, v);
        }
        1 => {
            let c = b.cell_not(protected);
            if b.rng.chance(1, 2) {
                b.clear(c);
            } else {
                let v = b.rng.range(0, 9);
                b.set(c, v);
            }
        }
        2 => {
            let src = b.cell_not(protected);
            let nd = b.rng.range(1, 3);
            let mut dsts = Vec::new();
            for _ in 0..nd {
                let mut not = protected.clone();
                not.push(src);
                let d = b.cell_not(&not);
                let k = b.mult_const();
                dsts.push((d, k));
            }
            b.drain(src, &dsts, 1);
        }
        3 => {
            let src = b.cell();
            let mut not = protected.clone();
            not.push(src);
            let dst = b.cell_not(&not);
            not.push(dst);
            let tmp = b.cell_not(&not);
            let k = b.mult_const();
            b.clear(tmp);
            b.add_mul(dst, src, k, tmp);
        }
        4 => {
            let c = b.cell_not(protected);
            match b.rng.below(5) {
                0 => {
                    // mostly a handful of iterations; sometimes enough for closed forms in n*(n-1)
                    // to carry into the top bit of an 8-bit cell (n = 17 .. 40)
                    let v = if b.rng.chance(1, 3) { b.rng.range(6, 40) } else { b.rng.range(1, 5) };
                    b.set(c, v);
                }
                4 if b.wrap_ok => {
                    // a large constant trip count reached through wrap-around (cheap at 8 bit only)
                    let v = b.rng.range(1, 127);
                    b.clear(c);
                    b.add(c, -v);
                }
                1 | 4 => b.input(c),
                2 => {
                    let v = b.rng.range(0, 3);
                    b.add(c, v);
                }
                _ => {}
            }
            b.goto(c);
            b.out.push('[');
            protected.push(c);
            block(b, depth + 1, protected);
            protected.pop();
            b.add(c, -1);
            b.goto(c);
            b.out.push(']');
        }
        5 => {
            let c = b.cell();
            b.output(c);
        }
        6 => {
            let c = b.cell_not(protected);
            b.input(c);
        }
        7 => {
            // if (c) { body; c = 0 }
            let c = b.cell_not(protected);
            b.goto(c);
            b.out.push('[');
            protected.push(c);
            block(b, depth + 1, protected);
            protected.pop();
            b.clear(c);
            b.goto(c);
            b.out.push(']');
        }
        8 => {
            // x = k*x + c via tmp
            let x = b.cell_not(protected);
            let mut not = protected.clone();
            not.push(x);
            let tmp = b.cell_not(&not);
            let k = b.rng.range(2, 5);
            let c = b.rng.range(0, 3);
            b.clear(tmp);
            b.drain(x, &[(tmp, k)], 1);
            b.drain(tmp, &[(x, 1)], 1);
            b.add(x, c);
        }
        9 => {
            let x = b.cell_not(protected);
            let mut not = protected.clone();
            not.push(x);
            let y = b.cell_not(&not);
            not.push(y);
            let t = b.cell_not(&not);
            b.clear(t);
            b.drain(x, &[(t, 1)], 1);
            b.drain(y, &[(x, 1)], 1);
            b.drain(t, &[(y, 1)], 1);
        }
        10 => {
            // x += y ; y = x (through temp)
            let x = b.cell_not(protected);
            let mut not = protected.clone();
            not.push(x);
            let y = b.cell_not(&not);
            not.push(y);
            let t = b.cell_not(&not);
            b.clear(t);
            b.drain(y, &[(x, 1)], 1);
            b.drain(x, &[(y, 1), (t, 1)], 1);
            b.drain(t, &[(x, 1)], 1);
        }
        11 => {
            let c = b.cell_not(protected);
            let step = *b.rng.pick(&[2i64, 3, 3, 4, 5, 6]);
            let mult = b.rng.range(0, 4);
            // make the counter a multiple of step most of the time
            if b.rng.chance(5, 6) {
                b.set(c, step * mult);
            }
            let mut not = protected.clone();
            not.push(c);
            let d = b.cell_not(&not);
            let k = b.mult_const();
            b.drain(c, &[(d, k)], step);
        }
        20 => {
            let cnt = b.cell_not(protected);
            let mut not = protected.clone();
            not.push(cnt);
            let lin = b.cell_not(&not);
            not.push(lin);
            let acc = b.cell_not(&not);
            not.push(acc);
            let tmp = b.cell_not(&not);
            if [cnt, lin, acc, tmp].iter().collect::<std::collections::BTreeSet<_>>().len() == 4 {
                // trip counts on both sides of the points where n*(n-1) carries into the top bit
                let n = if b.wrap_ok && b.rng.chance(1, 4) { -b.rng.range(1, 127) } else { b.rng.range(2, 48) };
                b.clear(cnt);
                b.add(cnt, n);
                if b.rng.chance(1, 2) {
                    b.clear(lin);
                }
                b.clear(tmp);
                b.goto(cnt);
                b.out.push('[');
                let a = *b.rng.pick(&[1i64, 1, 1, 2, 3, 5]);
                let k = *b.rng.pick(&[1i64, 1, 1, 2, 3]);
                let first = b.rng.chance(1, 2);
                if first {
                    b.add(lin, a);
                }
                b.add_mul(acc, lin, k, tmp);
                if !first {
                    b.add(lin, a);
                }
                b.add(cnt, -1);
                b.goto(cnt);
                b.out.push(']');
                b.output(acc);
            }
        }
        12 => {
            let c = b.cell();
            b.goto(c);
            let snippet = neutral_snippet(b.rng);
            b.out.push_str(&snippet);
        }
        13 => {
            let c = b.cell_not(protected);
            let v = b.rng.range(1, 4);
            b.set(c, v);
            b.goto(c);
            b.out.push('[');
            block(b, depth + 1, protected);
            b.add(c, -1);
            b.goto(c);
            b.out.push(']');
        }
        14 => {
            // dst += a * b through a counter copy; a == b gives a square
            let a = b.cell_not(protected);
            let bb = if b.rng.chance(1, 2) { a } else { b.cell_not(protected) };
            let mut not = protected.clone();
            not.extend_from_slice(&[a, bb]);
            let dst = b.cell_not(&not);
            not.push(dst);
            let t1 = b.cell_not(&not);
            not.push(t1);
            let t2 = b.cell_not(&not);
            b.clear(t1);
            b.clear(t2);
            b.add_mul(t1, a, 1, t2);
            b.goto(t1);
            b.out.push('[');
            b.add(t1, -1);
            b.add_mul(dst, bb, 1, t2);
            b.goto(t1);
            b.out.push(']');
            if b.rng.chance(1, 2) {
                b.output(dst);
            }
            if b.rng.chance(1, 2) {
                // the operand is cleared and the zero is observed later
                b.clear(a);
                if b.rng.chance(1, 2) {
                    b.output(a);
                }
            }
        }
        15 => {
            // inside a loop on c: an input/data dependent `if` writes c, then an inner loop runs on c
            let c = *protected.last().unwrap();
            let mut not = protected.clone();
            let d = b.cell_not(&not);
            not.push(d);
            if b.rng.chance(1, 2) {
                b.input(d);
            }
            b.goto(d);
            b.out.push('[');
            match b.rng.below(3) {
                0 => b.clear(c),
                1 => b.add(c, -1),
                _ => {
                    let v = b.rng.range(0, 2);
                    b.set(c, v);
                }
            }
            b.clear(d);
            b.goto(d);
            b.out.push(']');
            b.goto(c);
            b.out.push('[');
            if b.rng.chance(2, 3) {
                b.out.push('.');
            }
            match b.rng.below(3) {
                0 => b.clear(c),
                1 => b.add(c, -1),
                _ => {
                    b.clear(c);
                    if b.rng.chance(1, 3) {
                        b.add(c, 1);
                    }
                }
            }
            b.goto(c);
            b.out.push(']');
            // keep the enclosing loop finite most of the time: it ends with `c -= 1`, so give c a value
            if b.rng.chance(3, 4) {
                b.add(c, 1);
            }
        }
        16 => {
            let d = b.cell_not(protected);
            let mut not = protected.clone();
            not.push(d);
            let x = b.cell_not(&not);
            if b.rng.chance(2, 3) {
                b.input(d);
            }
            b.goto(d);
            b.out.push('[');
            match b.rng.below(3) {
                0 => b.clear(x),
                1 => {
                    let v = b.small_const();
                    b.add(x, v);
                }
                _ => b.input(x),
            }
            b.clear(d);
            b.goto(d);
            b.out.push(']');
            match b.rng.below(3) {
                0 => b.output(x),
                1 => {
                    b.goto(x);
                    b.out.push_str("[.[-]]");
                }
                _ => {
                    let mut not2 = not.clone();
                    not2.push(x);
                    let y = b.cell_not(&not2);
                    b.drain(x, &[(y, 1)], 1);
                    b.output(y);
                }
            }
        }
        19 => {
            let a = b.cell();
            let mut not = protected.clone();
            not.push(a);
            let bb = b.cell_not(&not);
            not.push(bb);
            let t = b.cell_not(&not);
            not.push(t);
            let c = b.cell_not(&not);
            not.push(c);
            let mut dsts = Vec::new();
            for _ in 0..3 {
                let d = b.cell_not(&not);
                not.push(d);
                dsts.push(d);
            }
            let (k1, k2) = (b.rng.range(1, 2), b.rng.range(1, 3));
            let mul = b.rng.chance(1, 3);
            let recipe = |b: &mut Builder, dst: i64| {
                b.clear(t);
                if mul {
                    // dst += a * bb via a counter copy in c is too costly here; use a scaled sum instead
                    b.add_mul(dst, a, k1 + 1, t);
                    b.add_mul(dst, bb, k2, t);
                } else {
                    b.add_mul(dst, a, k1, t);
                    b.add_mul(dst, bb, k2, t);
                }
            };
            recipe(b, dsts[0]);
            b.output(dsts[0]);
            for l in 0..2 {
                match b.rng.below(3) {
                    0 => b.input(c),
                    _ => {
                        let v = b.rng.range(2, 3);
                        b.set(c, v);
                    }
                }
                b.goto(c);
                b.out.push('[');
                recipe(b, dsts[l + 1]);
                b.output(dsts[l + 1]);
                if b.rng.chance(1, 2) {
                    // something else derived from the same cells, then a write to an earlier result
                    let kk = b.rng.range(1, 3);
                    b.add_mul(dsts[(l + 2) % 3], a, kk, t);
                    b.output(dsts[(l + 2) % 3]);
                }
                if b.rng.chance(1, 2) {
                    b.add(dsts[0], 1);
                    b.output(dsts[0]);
                }
                b.add(c, -1);
                b.goto(c);
                b.out.push(']');
            }
        }
        18 => {
            let x = b.cell();
            let mut not = protected.clone();
            not.push(x);
            let t = b.cell_not(&not);
            not.push(t);
            let tmp = b.cell_not(&not);
            not.push(tmp);
            b.clear(t);
            b.clear(tmp);
            b.add_mul(t, x, 1, tmp);
            let step = *b.rng.pick(&[3i64, 3, 5, 7, 9]);
            let off = b.rng.range(0, 6);
            b.add(t, off);
            let nd = b.rng.range(1, 2);
            let mut dsts = Vec::new();
            for _ in 0..nd {
                let d = b.cell_not(&not);
                not.push(d);
                let k = b.rng.range(1, 3);
                dsts.push((d, k));
            }
            b.drain(t, &dsts, step);
            let mut outs: Vec<i64> = dsts.iter().map(|d| d.0).collect();
            if b.rng.chance(1, 2) {
                // a second strided loop on another copy of the same cell with another offset and the
                // same step: both trip counts share the product inv(step) * x
                b.add_mul(t, x, 1, tmp);
                let off2 = off + step * b.rng.range(1, 2);
                b.add(t, off2);
                let mut dsts2 = Vec::new();
                for _ in 0..b.rng.range(1, 2) {
                    let d = b.cell_not(&not);
                    not.push(d);
                    dsts2.push((d, 1));
                }
                b.drain(t, &dsts2, step);
                outs.extend(dsts2.iter().map(|d| d.0));
            }
            for d in outs {
                if b.rng.chance(3, 4) {
                    b.output(d);
                }
            }
        }
        _ => {
            let c = b.cell_not(protected);
            let mut not = protected.clone();
            not.push(c);
            let d = b.cell_not(&not);
            let v = b.rng.range(1, 3);
            b.add(c, v);
            b.goto(c);
            b.out.push('[');
            b.input(d);
            b.goto(d);
            b.out.push('[');
            b.clear(c);
            b.clear(d);
            b.goto(d);
            b.out.push(']');
            b.goto(c);
            b.out.push_str("[.[-]");
            if b.rng.chance(1, 2) {
                b.out.push('+');
                b.out.push_str("]");
                // `[.[-]+]` never ends once entered: only keep it rarely (divergent cases feed C05/C07)
            } else {
                b.out.push(']');
            }
            b.goto(c);
            b.out.push(']');
        }
    }
}

/// A short random balanced snippet with zero net pointer movement inside loops and overall.
fn neutral_snippet(rng: &mut Rng) -> String {
    fn seg(rng: &mut Rng, depth: u32, s: &mut String) {
        let mut off: i64 = 0;
        let n = rng.range(1, 6);
        for _ in 0..n {
            match rng.below(if depth < 2 { 7 } else { 6 }) {
                0 | 1 => s.push('+'),
                2 => s.push('-'),
                3 => {
                    if off < 3 {
                        s.push('>');
                        off += 1;
                    }
                }
                4 => {
                    if off > -3 {
                        s.push('<');
                        off -= 1;
                    }
                }
                5 => s.push('.'),
                _ => {
                    s.push('[');
                    seg(rng, depth + 1, s);
                    s.push_str("-]");
                }
            }
        }
        while off > 0 {
            s.push('<');
            off -= 1;
        }
        while off < 0 {
            s.push('>');
            off += 1;
        }
    }
    let mut s = String::new();
    seg(rng, 0, &mut s);
    s
}

/// Pressure family: many simultaneously live values. Cyclic dependency systems
/// `x_i ±= k * x_j` over many cells inside an input-counted loop.
pub fn pressure(rng: &mut Rng, wrap_ok: bool) -> String {
    let n = rng.range(6, 20);
    let mut b = Builder::new(rng, n + 2, wrap_ok, 4000);
    let ctr = n;
    let tmp = n + 1;
    // seed
    for c in 0..n {
        match b.rng.below(5) {
            0 => b.input(c),
            1 => {}
            _ => {
                let v = b.rng.range(1, 5);
                b.add(c, v);
            }
        }
    }
    match b.rng.below(3) {
        0 => b.input(ctr),
        _ => {
            let v = b.rng.range(1, 4);
            b.add(ctr, v);
        }
    }
    b.goto(ctr);
    b.out.push('[');
    let m = b.rng.range(3, n.min(14) + 2);
    for _ in 0..m {
        let i = b.rng.range(0, n - 1);
        let mut j = b.rng.range(0, n - 1);
        if j == i {
            j = (i + 1) % n;
        }
        let k = b.mult_const();
        b.add_mul(i, j, k, tmp);
        if b.rng.chance(1, 8) {
            let c = b.rng.range(0, n - 1);
            b.output(c);
        }
        if b.rng.chance(1, 16) {
            let c = b.rng.range(0, n - 1);
            b.input(c);
        }
    }
    b.add(ctr, -1);
    b.goto(ctr);
    b.out.push(']');
    for c in 0..n {
        b.output(c);
    }
    b.out
}

/// Straight-line pressure: one big simultaneous system without a loop (products of cells).
pub fn pressure_products(rng: &mut Rng) -> String {
    // x_i = input; then y += x_i * x_j via nested drains (products create Mul bytecode).
    let n = rng.range(3, 8);
    let mut b = Builder::new(rng, n + 3, false, 4000);
    for c in 0..n {
        if b.rng.chance(2, 3) {
            b.input(c);
        } else {
            let v = b.rng.range(1, 4);
            b.add(c, v);
        }
    }
    let acc = n;
    let t1 = n + 1;
    let t2 = n + 2;
    let m = b.rng.range(2, 6);
    for _ in 0..m {
        let i = b.rng.range(0, n - 1);
        let j = b.rng.range(0, n - 1);
        // acc += x_i * x_j : for each unit of x_i (copied) add x_j
        b.goto(i);
        b.out.push('[');
        b.add(i, -1);
        b.add(t1, 1);
        if i != j {
            b.add_mul(acc, j, 1, t2);
        } else {
            b.add(acc, 1);
        }
        b.goto(i);
        b.out.push(']');
        b.drain(t1, &[(i, 1)], 1);
        if b.rng.chance(1, 3) {
            b.output(acc);
        }
    }
    b.output(acc);
    for c in 0..n {
        b.output(c);
    }
    b.out
}

/// Roaming family: far pointer moves in both directions, revisiting and printing old cells.
pub fn roaming(rng: &mut Rng, max_dist: i64) -> String {
    let mut s = String::new();
    let mut pos: i64 = 0;
    let mut marks: Vec<i64> = Vec::new();
    let hops = rng.range(2, 8);
    for _ in 0..hops {
        // write a recognisable value here
        let v = rng.range(1, 9);
        rep(&mut s, '+', v as usize);
        marks.push(pos);
        let dist = match rng.below(4) {
            0 => rng.range(1, 40),
            1 => rng.range(40, 600),
            _ => rng.range(600, max_dist.max(601)),
        };
        let dir = if rng.chance(1, 2) { 1 } else { -1 };
        match rng.below(3) {
            0 => {
                // plain moves
                rep(&mut s, if dir > 0 { '>' } else { '<' }, dist as usize);
                pos += dir * dist;
            }
            1 => {
                // loop-carried move: counter travels with the pointer
                // c = k ; [ - > + (move counter one hop of `h` cells) ]
                let h = rng.range(1, 5);
                let k = (dist / h).clamp(1, 250);
                rep(&mut s, '+', k as usize);
                s.push('[');
                s.push('-');
                // move the rest of the counter h cells over
                s.push('[');
                s.push('-');
                rep(&mut s, if dir > 0 { '>' } else { '<' }, h as usize);
                s.push('+');
                rep(&mut s, if dir > 0 { '<' } else { '>' }, h as usize);
                s.push(']');
                rep(&mut s, if dir > 0 { '>' } else { '<' }, h as usize);
                s.push(']');
                pos += dir * h * (k + v);
                // the start mark was overwritten by the counter; drop it
                marks.pop();
            }
            _ => {
                // lay a trail of ones and scan back over it
                let k = dist.min(3000);
                for _ in 0..k {
                    s.push(if dir > 0 { '>' } else { '<' });
                    s.push('+');
                }
                // scan back to the start mark... stop at first zero beyond the trail
                s.push_str(if dir > 0 { "[<]" } else { "[>]" });
                // we are now one cell beyond the start mark (which is non-zero) — at the first zero
                // before it. Scan forward again to the end of the trail.
                s.push(if dir > 0 { '>' } else { '<' });
                s.push_str(if dir > 0 { "[>]" } else { "[<]" });
                pos += dir * (k + 1);
                // trail cells hold ones: not tracked as marks
            }
        }
    }
    // go back and print marks in random order
    let mut order = marks.clone();
    for i in (1..order.len()).rev() {
        let j = rng.below(i as u64 + 1) as usize;
        order.swap(i, j);
    }
    for m in order {
        let d = m - pos;
        rep(&mut s, if d > 0 { '>' } else { '<' }, d.unsigned_abs() as usize);
        pos = m;
        s.push('.');
    }
    s
}

/// Scan family: engineered arenas so `[>]`, `[<]`, `[>>]` have statically known landing points.
pub fn scan(rng: &mut Rng) -> String {
    let mut s = String::new();
    // mostly short arenas; sometimes long enough to cross several tape growths
    let n = if rng.chance(1, 6) { rng.range(20, 160) } else { rng.range(2, 12) };
    let stride = *rng.pick(&[1i64, 1, 1, 2, 2, 3, 4, 5, 8]);
    // arena: cells at stride positions set non-zero, then a zero
    for i in 0..n {
        let v = rng.range(1, 5);
        rep(&mut s, '+', v as usize);
        if i + 1 < n {
            rep(&mut s, '>', stride as usize);
        }
    }
    // now at last arena cell; step back a few arena cells (the tape size after the growth that the
    // left scan causes depends on where it starts), then scan left with the stride to the zero
    // before the arena
    let back = rng.range(0, 3.min(n - 1));
    rep(&mut s, '<', (back * stride) as usize);
    s.push('[');
    rep(&mut s, '<', stride as usize);
    s.push(']');
    // move into the arena again and scan right
    rep(&mut s, '>', stride as usize);
    s.push('[');
    if rng.chance(1, 3) {
        s.push('.');
    }
    rep(&mut s, '>', stride as usize);
    s.push(']');
    // bounce: further left/right scans over the same arena from other starting cells
    for _ in 0..rng.range(0, 2) {
        let back = rng.range(0, 3.min(n - 1));
        rep(&mut s, '<', ((1 + back) * stride) as usize);
        s.push('[');
        rep(&mut s, '<', stride as usize);
        s.push(']');
        rep(&mut s, '>', stride as usize);
        s.push('[');
        rep(&mut s, '>', stride as usize);
        s.push(']');
    }
    // after the arena: mark and print - or leave the cell behind the arena untouched, so that the
    // arena's last cell is the right edge of the access window and the scan itself runs off the tape
    if rng.chance(1, 2) {
        s.push_str("+++.");
    }
    // walk back printing
    s.push('<');
    if stride == 1 {
        s.push_str("[.<]");
    } else {
        rep(&mut s, '<', (stride - 1) as usize);
        s.push('[');
        s.push('.');
        rep(&mut s, '<', stride as usize);
        s.push(']');
    }
    if rng.chance(1, 2) {
        s.push_str(">,[>,]<[.<]");
    }
    s
}

/// Divergent idioms (C05/C07). Each returns a program that provably cycles (at 8/16 bit where
/// the idiom depends on wrap) for at least some inputs; the spec decides.
pub fn diverge(rng: &mut Rng) -> String {
    let pre = match rng.below(6) {
        0 => String::new(),
        1 => "++.>+.<".to_string(),
        2 => ",.".to_string(),
        3 => "+++[>++<-]>.<".to_string(),
        4 => structured(rng, true, 60),
        _ => ">+<".to_string(),
    };
    let core = match rng.below(15) {
        12..=14 => {
            // counted loop whose trip count does not exist: step d with more trailing zero bits
            // than the start value s (d*n = s has no solution modulo any power of two >= 2^tz(d)+1)
            let k = rng.range(1, 4) as u32;
            let d = (1i64 << k) * *rng.pick(&[1i64, 1, 1, 3, 5]);
            let tz_s = rng.range(0, k as i64 - 1) as u32;
            let s = (1i64 << tz_s) * *rng.pick(&[1i64, 1, 3, 5, 7, 9]);
            let body = *rng.pick(&["", "", ">+<", ".", ">+.<", ">++<", ">[-]+<"]);
            let (up, down) = if rng.chance(1, 4) { ('-', '+') } else { ('+', '-') };
            let mut c = String::new();
            rep(&mut c, up, s as usize);
            c.push('[');
            c.push_str(body);
            rep(&mut c, down, d as usize);
            c.push(']');
            c
        }
        0 => "+[]".to_string(),
        1 => "+[>+<]".to_string(),
        2 => "+[--]".to_string(),
        3 => "+[.]".to_string(),
        4 => "+[,+]".to_string(),
        5 => "+[>+[-]<]".to_string(),
        6 => "+[[-]+]".to_string(),
        7 => "+++[>+[<->]<]".to_string(),
        8 => ",[>+<]".to_string(),
        9 => "+[>++[-]+.<]".to_string(),
        10 => "++[>+<[->+<]>[-<+>]<]".to_string(),
        _ => "+[>[-]++[<+>-]<-]".to_string(),
    };
    let wrap = match rng.below(5) {
        0 => format!("{pre}{core}"),
        1 => format!("{pre}>{core}<."),
        2 => format!("{pre}+[>{core}<-]."),
        3 => format!("{pre},[{core}]."),
        _ => format!("{pre}{core}+.+."),
    };
    wrap
}

/// Mutate a program (keeps brackets balanced).
pub fn mutate(rng: &mut Rng, src: &str) -> String {
    let mut chars: Vec<char> = src.chars().collect();
    let nmut = rng.range(1, 4);
    for _ in 0..nmut {
        if chars.is_empty() {
            chars.push('+');
        }
        match rng.below(7) {
            0 => {
                // insert a non-bracket command
                let i = rng.below(chars.len() as u64 + 1) as usize;
                let c = *rng.pick(&['+', '-', '<', '>', '.', ',']);
                chars.insert(i, c);
            }
            1 => {
                // delete a non-bracket command
                let i = rng.below(chars.len() as u64) as usize;
                if chars[i] != '[' && chars[i] != ']' {
                    chars.remove(i);
                }
            }
            2 => {
                // replace a non-bracket command
                let i = rng.below(chars.len() as u64) as usize;
                if chars[i] != '[' && chars[i] != ']' {
                    chars[i] = *rng.pick(&['+', '-', '<', '>', '.', ',']);
                }
            }
            3 => {
                // wrap a balanced range in a loop
                if let Some((a, z)) = balanced_range(rng, &chars) {
                    chars.insert(z, ']');
                    chars.insert(a, '[');
                }
            }
            4 => {
                // duplicate a balanced range
                if let Some((a, z)) = balanced_range(rng, &chars) {
                    let dup: Vec<char> = chars[a..z].to_vec();
                    let at = z;
                    for (k, c) in dup.into_iter().enumerate() {
                        chars.insert(at + k, c);
                    }
                }
            }
            5 => {
                // remove a matched bracket pair
                let opens: Vec<usize> = (0..chars.len()).filter(|&i| chars[i] == '[').collect();
                if !opens.is_empty() {
                    let a = *rng.pick(&opens);
                    let mut d = 0;
                    let mut z = a;
                    for i in a..chars.len() {
                        if chars[i] == '[' {
                            d += 1;
                        } else if chars[i] == ']' {
                            d -= 1;
                            if d == 0 {
                                z = i;
                                break;
                            }
                        }
                    }
                    chars.remove(z);
                    chars.remove(a);
                }
            }
            _ => {
                // change a run length
                let i = rng.below(chars.len() as u64) as usize;
                let c = chars[i];
                if c != '[' && c != ']' {
                    let k = rng.range(1, 5);
                    for _ in 0..k {
                        chars.insert(i, c);
                    }
                }
            }
        }
    }
    chars.into_iter().collect()
}

fn balanced_range(rng: &mut Rng, chars: &[char]) -> Option<(usize, usize)> {
    if chars.is_empty() {
        return None;
    }
    for _ in 0..8 {
        let a = rng.below(chars.len() as u64) as usize;
        let mut d = 0i32;
        let mut ends = Vec::new();
        for i in a..chars.len().min(a + 60) {
            if chars[i] == '[' {
                d += 1;
            } else if chars[i] == ']' {
                d -= 1;
                if d < 0 {
                    break;
                }
            }
            if d == 0 {
                ends.push(i + 1);
            }
        }
        if !ends.is_empty() {
            return Some((a, *rng.pick(&ends)));
        }
    }
    None
}

/// Input streams to run a program with.
pub fn inputs(rng: &mut Rng, thorough: bool) -> Vec<Vec<u8>> {
    let mut v: Vec<Vec<u8>> = Vec::new();
    v.push(Vec::new());
    let n = rng.range(1, 8) as usize;
    v.push((0..n).map(|_| rng.range(0, 6) as u8).collect());
    v.push((0..n).map(|_| rng.next() as u8).collect());
    if thorough {
        v.push(vec![0; 4]);
        v.push(vec![0xff; 3]);
        v.push((0..64u32).map(|i| (183 * i) as u8).collect());
        v.push((0..16).map(|_| rng.range(1, 3) as u8).collect());
    }
    v
}

/// Cyclic simultaneous systems of products: every x_i is replaced by a product (or sum of products)
/// of other x's, all "at once" (computed into scratch cells first, then moved back). After
/// optimisation this is one simultaneous assignment with n entries, i.e. n values alive at once,
/// each a `mul tmp, mem, mem`.
pub fn cyclic_products(rng: &mut Rng) -> String {
    let n = rng.range(3, 17);
    let mut b = Builder::new(rng, 2 * n + 3, false, 100_000);
    let h1 = 2 * n;
    let h2 = 2 * n + 1;
    for c in 0..n {
        if b.rng.chance(3, 4) {
            b.input(c);
        } else {
            let v = b.rng.range(1, 3);
            b.add(c, v);
        }
    }
    let in_loop = b.rng.chance(1, 3);
    let ctr = 2 * n + 2;
    if in_loop {
        b.add(ctr, 2);
        b.goto(ctr);
        b.out.push('[');
    }
    for i in 0..n {
        let t = n + i;
        let terms = if b.rng.chance(1, 4) { 2 } else { 1 };
        for _ in 0..terms {
            let a = (i + b.rng.range(1, n - 1)) % n;
            let c = (i + b.rng.range(1, n - 1)) % n;
            if a == c {
                // square through a copy
                b.add_mul(h1, a, 1, h2);
                b.goto(h1);
                b.out.push('[');
                b.add(h1, -1);
                b.add_mul(t, a, 1, h2);
                b.goto(h1);
                b.out.push(']');
            } else {
                b.goto(a);
                b.out.push('[');
                b.add(a, -1);
                b.add(h1, 1);
                b.goto(c);
                b.out.push('[');
                b.add(c, -1);
                b.add(t, 1);
                b.add(h2, 1);
                b.goto(c);
                b.out.push(']');
                b.drain(h2, &[(c, 1)], 1);
                b.goto(a);
                b.out.push(']');
                b.drain(h1, &[(a, 1)], 1);
            }
        }
        if b.rng.chance(1, 6) {
            let k = b.rng.range(1, 3);
            b.add(t, k);
        }
    }
    for i in 0..n {
        b.clear(i);
        b.drain(n + i, &[(i, 1)], 1);
    }
    if in_loop {
        b.add(ctr, -1);
        b.goto(ctr);
        b.out.push(']');
    }
    for c in 0..n {
        b.output(c);
    }
    b.out
}

/// A stage for a chain family (C13 growth): a short pointer-disciplined fragment over a few cells
/// that ends `shift` cells to the right of where it began, so that n repetitions feed each
/// other through the overlapping cells. Returns (stage, shift).
pub fn chain_stage(rng: &mut Rng) -> (String, usize) {
    let ncells = rng.range(2, 6);
    let budget = rng.range(4, 24);
    let mut b = Builder::new(rng, ncells, false, budget);
    let n = b.rng.range(1, 3);
    for _ in 0..n {
        stmt(&mut b, 1, &mut Vec::new());
    }
    let shift = b.rng.range(0, ncells);
    b.goto(shift);
    (b.out, shift as usize)
}
