//! Small deterministic PRNG (splitmix64 seeding + xoshiro256**). All arithmetic wrapping.

#[derive(Clone)]
pub struct Rng {
    s: [u64; 4],
}

fn splitmix(x: &mut u64) -> u64 {
    *x = x.wrapping_add(0x9E3779B97F4A7C15);
    let mut z = *x;
    z = (z ^ (z >> 30)).wrapping_mul(0xBF58476D1CE4E5B9);
    z = (z ^ (z >> 27)).wrapping_mul(0x94D049BB133111EB);
    z ^ (z >> 31)
}

impl Rng {
    pub fn new(seed: u64) -> Self {
        let mut x = seed;
        Rng { s: [splitmix(&mut x), splitmix(&mut x), splitmix(&mut x), splitmix(&mut x)] }
    }
    /// Derive an independent stream from (seed, a, b).
    pub fn derive(seed: u64, a: u64, b: u64) -> Self {
        let mut x = seed ^ a.wrapping_mul(0xD1342543DE82EF95) ^ b.wrapping_mul(0xA24BAED4963EE407).rotate_left(17);
        let _ = splitmix(&mut x);
        Rng::new(splitmix(&mut x))
    }
    pub fn next(&mut self) -> u64 {
        let r = self.s[1].wrapping_mul(5).rotate_left(7).wrapping_mul(9);
        let t = self.s[1] << 17;
        self.s[2] ^= self.s[0];
        self.s[3] ^= self.s[1];
        self.s[1] ^= self.s[2];
        self.s[0] ^= self.s[3];
        self.s[2] ^= t;
        self.s[3] = self.s[3].rotate_left(45);
        r
    }
    /// Uniform in 0..n (n > 0).
    pub fn below(&mut self, n: u64) -> u64 {
        if n == 0 { 0 } else { self.next() % n }
    }
    pub fn range(&mut self, lo: i64, hi: i64) -> i64 {
        lo.wrapping_add(self.below((hi - lo + 1) as u64) as i64)
    }
    pub fn chance(&mut self, num: u64, den: u64) -> bool {
        self.below(den) < num
    }
    pub fn pick<'a, T>(&mut self, xs: &'a [T]) -> &'a T {
        &xs[self.below(xs.len() as u64) as usize]
    }
    /// Weighted choice: returns index.
    pub fn weighted(&mut self, ws: &[u32]) -> usize {
        let total: u64 = ws.iter().map(|&w| w as u64).sum();
        let mut r = self.below(total.max(1));
        for (i, &w) in ws.iter().enumerate() {
            if r < w as u64 { return i; }
            r -= w as u64;
        }
        ws.len() - 1
    }
}

pub fn fnv64(data: &[u8]) -> u64 {
    let mut h: u64 = 0xcbf29ce484222325;
    for &b in data {
        h ^= b as u64;
        h = h.wrapping_mul(0x100000001b3);
    }
    h
}
