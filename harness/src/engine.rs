//! Case runner (fork isolation), verdicts, tallies and result files.

use std::collections::{BTreeMap, HashSet};
use std::io::Write;

use crate::alloc;
use crate::bcref;
use crate::bcview::BcView;
use crate::json::{self, Obj};
use crate::rng::fnv64;
use crate::run::{run_cfg, Backend, Cfg, Io, Mode, FLAG_ERR, FLAG_FINISHED};
use crate::spec::{self, SpecRun, Status};
use crate::sys::{self, ChildEnd, EV_CAP, EV_FAILED_IN, EV_REFUSED_OUT, ST_CREATE_ERR, ST_NONE, ST_PANICKED, ST_RETURNED, ST_RUNNING, ST_TRAP};

#[derive(Clone, Debug)]
pub struct Job {
    pub cfg: Cfg,
    pub io: Io,
}

#[derive(Clone, Debug, PartialEq)]
pub enum End {
    Normal,
    Crash(i32),
    GuardFault { addr: u64, in_arena: bool },
    Timeout,
    ExitCode(i32),
    NotRun,
}

#[derive(Clone, Debug)]
pub struct Obs {
    pub end: End,
    pub state: u32,
    pub flags: u32,
    pub n_events: u64,
    pub ev_hash: u64,
    pub aux: [u64; 8],
    pub msg: String,
    pub events: Vec<u16>,
    pub reran: bool,
}

impl Obs {
    pub fn finished(&self) -> bool {
        self.flags & FLAG_FINISHED != 0
    }
}

fn snapshot(i: usize, end: End) -> Obs {
    let s = &sys::shared().slots[i];
    Obs {
        end,
        state: s.state,
        flags: s.flags,
        n_events: s.n_events,
        ev_hash: s.ev_hash,
        aux: s.aux,
        msg: s.get_msg(),
        events: s.evs().to_vec(),
        reran: false,
    }
}

pub struct RunOpts {
    pub alloc_mode: u32,
    /// per-job ceiling in seconds (child-side alarm)
    pub ceiling_s: u32,
    pub rerun_on_timeout: bool,
    pub validate_bc: bool,
    pub cover_bc: bool,
    pub mem_limit: u64,
    /// FAIL mode: the k-th armed allocation (1-based) returns null
    pub fail_at: u64,
}

impl Default for RunOpts {
    fn default() -> Self {
        RunOpts { alloc_mode: alloc::PASS, ceiling_s: 10, rerun_on_timeout: true, validate_bc: true, cover_bc: true, mem_limit: 0, fail_at: 0 }
    }
}

fn child_body(code: &str, jobs: &[Job], from: usize, to: usize, o: &RunOpts, ceiling: u32) -> i32 {
    alloc::install_fault_handler();
    alloc::set_mode(o.alloc_mode);
    alloc::FAIL_AT.store(o.fail_at, std::sync::atomic::Ordering::Relaxed);
    if o.fail_at != 0 {
        // the allocation-failure abort prints to stderr; keep the logs readable
        unsafe {
            let fd = libc::open(b"/dev/null\0".as_ptr() as *const libc::c_char, libc::O_WRONLY);
            if fd >= 0 {
                libc::dup2(fd, 2);
            }
        }
    }
    if o.mem_limit != 0 {
        sys::limit_address_space(o.mem_limit);
    }
    let sh = sys::shared();
    for i in from..to {
        sh.cur = i as u32;
        sys::set_alarm(ceiling);
        let job = &jobs[i];
        let slot = &mut sh.slots[i];
        let nregs = if job.cfg.backend == Backend::Jit { 11 } else { 2 };
        let validate = o.validate_bc;
        let cover = o.cover_bc;
        let mut vio: Option<(u64, String)> = None;
        let mut bchash = 0u64;
        let mut temps = 0u64;
        let is_jit = job.cfg.backend == Backend::Jit;
        let mut on_bc = |v: &BcView| {
            temps = v.temps as u64;
            bchash = fnv64(format!("{:?}", v).as_bytes());
            if validate {
                let vs = bcref::validate(v, nregs);
                if let Some(f) = vs.first() {
                    vio = Some((f.at as u64, format!("{}: {}", f.rule, f.detail)));
                }
            }
            if cover {
                for k in 0..v.insts.len() {
                    if is_jit {
                        sys::cover(&format!("jit:{}", bcref::selector_key(v, k)));
                    } else {
                        sys::cover(&format!("bc:{}", bcref::bcint_key(v, k)));
                    }
                }
                sys::cover(&format!("{}temps:{}", if is_jit { "jit:" } else { "bc:" }, if v.temps > 16 { ">16".to_string() } else { v.temps.to_string() }));
            }
        };
        run_cfg(&job.cfg, code, &job.io, slot, &mut on_bc);
        slot.aux[4] = bchash;
        slot.aux[5] = temps;
        if let Some((at, m)) = vio {
            slot.aux[3] = at + 1;
            slot.set_msg(&m);
        }
        if cover {
            for (k, n) in hpbf::verif::take_notes() {
                sys::cover_n(&format!("opt:{}", k), n);
            }
        }
    }
    sys::set_alarm(0);
    0
}

pub fn child_body_pub(code: &str, jobs: &[Job], from: usize, to: usize, o: &RunOpts, ceiling: u32) -> i32 {
    child_body(code, jobs, from, to, o, ceiling)
}

pub fn snapshot_pub(i: usize, end: End) -> Obs {
    snapshot(i, end)
}

/// Run all jobs of one case in forked children; returns one observation per job.
pub fn run_case(code: &str, jobs: &[Job], o: &RunOpts) -> Vec<Obs> {
    assert!(jobs.len() <= sys::MAX_CFG);
    sys::reset_shared();
    let mut obs: Vec<Option<Obs>> = vec![None; jobs.len()];
    let mut from = 0usize;
    let mut hangs = 0;
    while from < jobs.len() {
        sys::shared().cur = from as u32;
        let end = sys::fork_run(0, || child_body(code, jobs, from, jobs.len(), o, o.ceiling_s));
        let sh = sys::shared();
        let cur = sh.cur as usize;
        match end {
            ChildEnd::Exit(0) => {
                for i in from..jobs.len() {
                    obs[i] = Some(snapshot(i, End::Normal));
                }
                from = jobs.len();
            }
            other => {
                for i in from..cur {
                    obs[i] = Some(snapshot(i, End::Normal));
                }
                let e = match other {
                    ChildEnd::Exit(70) => {
                        End::GuardFault { addr: sh.fault_addr, in_arena: sh.fault_seen == 1 }
                    }
                    ChildEnd::Exit(c) => End::ExitCode(c),
                    ChildEnd::Signal(s) => End::Crash(s),
                    ChildEnd::Timeout => End::Timeout,
                };
                let mut ob = snapshot(cur, e.clone());
                if e == End::Timeout && o.rerun_on_timeout {
                    // isolated re-run with a ten times larger ceiling
                    let saved_events = ob.events.clone();
                    let s = &mut sys::shared().slots[cur];
                    s.state = ST_NONE;
                    s.flags = 0;
                    s.n_events = 0;
                    s.ev_hash = 0xcbf29ce484222325;
                    s.aux = [0; 8];
                    s.msg_len = 0;
                    sys::shared().fault_seen = 0;
                    let end2 = sys::fork_run(0, || child_body(code, jobs, cur, cur + 1, o, o.ceiling_s * 10));
                    let e2 = match end2 {
                        ChildEnd::Exit(0) => End::Normal,
                        ChildEnd::Exit(70) => End::GuardFault { addr: sys::shared().fault_addr, in_arena: sys::shared().fault_seen == 1 },
                        ChildEnd::Exit(c) => End::ExitCode(c),
                        ChildEnd::Signal(s) => End::Crash(s),
                        ChildEnd::Timeout => End::Timeout,
                    };
                    ob = snapshot(cur, e2);
                    ob.reran = true;
                    let _ = saved_events;
                }
                sys::shared().fault_seen = 0;
                let hang = ob.reran && ob.end == End::Timeout;
                obs[cur] = Some(ob);
                from = cur + 1;
                if hang {
                    hangs += 1;
                    if hangs >= 2 {
                        // two confirmed hangs in one case: the rest is not run
                        for i in from..jobs.len() {
                            obs[i] = Some(snapshot(i, End::NotRun));
                        }
                        from = jobs.len();
                    }
                }
            }
        }
    }
    obs.into_iter().map(|o| o.unwrap()).collect()
}

#[derive(Clone, Debug, PartialEq)]
pub enum Verdict {
    Held,
    Violated(String),
    Inconclusive(String),
}

/// What the canonical semantics prescribe for this job's environment.
/// Returns (expected events, whether a stop is expected before the canonical end).
pub fn expected_events(io: &Io, spec: &SpecRun) -> Option<(Vec<u16>, bool)> {
    let complete = spec.total_events as usize <= spec.events.len();
    let mut e: Vec<u16> = spec.events.clone();
    let mut stopped = false;
    if io.input.is_none() {
        if let Some(k) = e.iter().position(|&x| !spec::ev_is_out(x)) {
            e.truncate(k);
            stopped = true;
        } else if !complete {
            return None;
        }
    }
    if let Some(f) = io.fault {
        // index in terms of logged events
        if !io.has_output {
            return None; // combination not used
        }
        if (f.at as usize) < e.len() {
            let failing = e[f.at as usize];
            e.truncate(f.at as usize);
            if spec::ev_is_out(failing) {
                e.push(EV_REFUSED_OUT | failing);
            } else {
                e.push(EV_FAILED_IN);
            }
            stopped = true;
        } else if !complete {
            return None;
        }
    }
    if !io.has_output {
        if !complete {
            return None;
        }
        e.retain(|&x| !spec::ev_is_out(x));
    }
    Some((e, stopped))
}

fn first_diff(a: &[u16], b: &[u16]) -> usize {
    a.iter().zip(b.iter()).position(|(x, y)| x != y).unwrap_or(a.len().min(b.len()))
}

fn describe_mismatch(exp: &[u16], got: &[u16], got_total: u64) -> String {
    let k = first_diff(exp, got);
    let lo = k.saturating_sub(3);
    format!(
        "events differ at index {k}: expected [{}] (total {}), observed [{}] (total {})",
        spec::fmt_events(&exp[lo..exp.len().min(k + 4)], 8),
        exp.len(),
        spec::fmt_events(&got[lo..got.len().min(k + 4)], 8),
        got_total
    )
}

/// Judge one observation of a canonically *halting* run (spec.status == Halted), or of a
/// limited run of a divergent one.
pub fn judge(job: &Job, spec: &SpecRun, obs: &Obs) -> Verdict {
    match &obs.end {
        End::Normal => {}
        End::Crash(s) => return Verdict::Violated(format!("process died with signal {s} during {}", job.cfg.describe())),
        End::GuardFault { addr, in_arena } => {
            return Verdict::Violated(format!(
                "memory fault at {addr:#x} ({}) during {}",
                if *in_arena { "guard page / freed block of the harness arena" } else { "outside the arena" },
                job.cfg.describe()
            ))
        }
        End::Timeout => {
            return if obs.reran {
                Verdict::Violated(format!("no return within the watchdog ceiling even when re-run alone ({})", job.cfg.describe()))
            } else {
                Verdict::Inconclusive("watchdog fired".into())
            }
        }
        End::ExitCode(c) if *c == crate::alloc::EXIT_BAD_LAYOUT => {
            return Verdict::Violated(format!("allocator contract broken during {}: {}", job.cfg.describe(), crate::alloc::bad_layout_text()))
        }
        End::ExitCode(c) => return Verdict::Violated(format!("child exited with status {c} during {}", job.cfg.describe())),
        End::NotRun => return Verdict::Inconclusive("not run".into()),
    }
    match obs.state {
        ST_RETURNED => {}
        ST_PANICKED => return Verdict::Violated(format!("panic in {}", job.cfg.describe())),
        ST_CREATE_ERR => return Verdict::Violated(format!("create() failed on a balanced program in {}", job.cfg.describe())),
        ST_TRAP => return Verdict::Violated(format!("bytecode contract trap: {}", obs.msg)),
        ST_RUNNING | _ => return Verdict::Inconclusive(format!("slot state {}", obs.state)),
    }
    if obs.flags & FLAG_ERR != 0 {
        return Verdict::Violated(format!("execute returned Err in {}", job.cfg.describe()));
    }
    if obs.events.iter().any(|&e| e & sys::EV_BAD_REQUEST != 0) {
        return Verdict::Violated("an I/O request with a buffer length other than one byte".into());
    }
    let halted = spec.status == Status::Halted;
    let (exp, stopped) = match expected_events(&job.io, spec) {
        Some(x) => x,
        None => return Verdict::Inconclusive("expected sequence longer than the event buffer".into()),
    };
    let exp_total: u64 = if stopped || job.io.fault.is_some() || !job.io.has_output || job.io.input.is_none() {
        exp.len() as u64
    } else {
        spec.total_events
    };
    let got = &obs.events;
    let prefix_ok = |upto: usize| got.len() >= upto.min(EV_CAP) && got[..upto.min(got.len())] == exp[..upto.min(exp.len()).min(got.len())];
    match job.cfg.mode {
        Mode::Exec | Mode::Unsafe { .. } => {
            if !halted && !stopped {
                return Verdict::Inconclusive("canonical run did not halt".into());
            }
            let same = obs.n_events == exp_total
                && got.len() == exp.len()
                && got[..] == exp[..]
                && (obs.n_events as usize <= EV_CAP || stopped || obs.ev_hash == spec.ev_hash);
            if same {
                Verdict::Held
            } else {
                Verdict::Violated(describe_mismatch(&exp, got, obs.n_events))
            }
        }
        Mode::Limited(budget) => {
            let _ = prefix_ok;
            if obs.finished() {
                // "finished" with an I/O stop also reports true on the interpreters; only the
                // canonical end counts as complete.
                if !halted && !stopped {
                    return Verdict::Violated(format!(
                        "limited run (budget {budget}) reported finished although the canonical run diverges"
                    ));
                }
                let same = obs.n_events == exp_total
                    && got.len() == exp.len()
                    && got[..] == exp[..]
                    && (obs.n_events as usize <= EV_CAP || stopped || obs.ev_hash == spec.ev_hash);
                if same {
                    Verdict::Held
                } else {
                    Verdict::Violated(format!("finished=true but {}", describe_mismatch(&exp, got, obs.n_events)))
                }
            } else {
                // must be a prefix
                let n = got.len();
                // the total is only known when the canonical run halts or the environment stops it
                let total_known = halted || stopped;
                let is_prefix = if total_known {
                    obs.n_events <= exp_total && n <= exp.len() && got[..] == exp[..n]
                } else {
                    // canonical run diverges: only the recorded canonical prefix can be compared
                    let m = n.min(exp.len());
                    got[..m] == exp[..m]
                };
                if !is_prefix {
                    return Verdict::Violated(format!("finished=false and not a prefix: {}", describe_mismatch(&exp, got, obs.n_events)));
                }
                Verdict::Held
            }
        }
    }
}

// ---- tallies -----------------------------------------------------------------------------------

pub struct Tally {
    pub prop: String,
    pub counters: BTreeMap<String, u64>,
    pub distinct: HashSet<u64>,
    pub samples: Vec<String>,
    pub violations: Vec<String>,
    pub inconclusive: Vec<String>,
    pub max_samples: usize,
    pub replay_dir: String,
}

impl Tally {
    pub fn new(prop: &str, replay_dir: &str) -> Self {
        Tally {
            prop: prop.to_string(),
            counters: BTreeMap::new(),
            distinct: HashSet::new(),
            samples: Vec::new(),
            violations: Vec::new(),
            inconclusive: Vec::new(),
            max_samples: 6,
            replay_dir: replay_dir.to_string(),
        }
    }
    pub fn inc(&mut self, k: &str, n: u64) {
        *self.counters.entry(k.to_string()).or_insert(0) += n;
    }
    pub fn max(&mut self, k: &str, n: u64) {
        let e = self.counters.entry(k.to_string()).or_insert(0);
        if n > *e {
            *e = n;
        }
    }
    pub fn get(&self, k: &str) -> u64 {
        *self.counters.get(k).unwrap_or(&0)
    }
    pub fn sample(&mut self, js: String) {
        if self.samples.len() < self.max_samples {
            self.samples.push(js);
        }
    }
    /// Record a violation and write its replay file; returns the path.
    pub fn violation(&mut self, sig: &str, js_body: Obj) -> String {
        let body = js_body.s("property", &self.prop).s("signature", sig).done();
        let h = fnv64(body.as_bytes());
        let _ = std::fs::create_dir_all(&self.replay_dir);
        let path = format!("{}/{}-{:016x}.json", self.replay_dir, self.prop, h);
        if let Ok(mut f) = std::fs::File::create(&path) {
            let _ = f.write_all(body.as_bytes());
        }
        self.violations.push(Obj::new().s("replay", &path).s("signature", sig).raw("case", &body).done());
        path
    }
    pub fn write(&self, path: &str, extra: &[(String, String)]) {
        let mut o = Obj::new().s("property", &self.prop);
        let counters = format!(
            "{{{}}}",
            self.counters.iter().map(|(k, v)| format!("{}:{}", json::esc(k), v)).collect::<Vec<_>>().join(",")
        );
        o = o.raw("counters", &counters);
        let dl: Vec<String> = self.distinct.iter().map(|h| format!("{}", h)).collect();
        o = o.raw("distinct", &json::arr(&dl));
        o = o.raw("samples", &json::arr(&self.samples));
        o = o.raw("violations", &json::arr(&self.violations));
        let inc: Vec<String> = self.inconclusive.iter().take(50).map(|s| json::esc(s)).collect();
        o = o.raw("inconclusive", &json::arr(&inc));
        let cov: Vec<String> = sys::cover_dump().into_iter().map(|(k, n)| format!("[{},{}]", json::esc(&k), n)).collect();
        o = o.raw("cover", &json::arr(&cov));
        for (k, v) in extra {
            o = o.raw(k, v);
        }
        let mut f = std::fs::File::create(path).expect("create out file");
        f.write_all(o.done().as_bytes()).unwrap();
    }
}

pub fn job_json(code: &str, input: &[u8], job: &Job, alloc_mode: u32) -> Obj {
    let (mode, budget, lo, hi) = match job.cfg.mode {
        Mode::Exec => ("exec", 0usize, 0isize, 0isize),
        Mode::Limited(b) => ("limited", b, 0, 0),
        Mode::Unsafe { lo, hi } => ("unsafe", 0, lo, hi),
    };
    let mut o = Obj::new()
        .s("program", code)
        .s("input_hex", &json::hex(input))
        .n("bits", job.cfg.bits)
        .s("backend", job.cfg.backend.name())
        .n("level", job.cfg.level)
        .s("mode", mode)
        .n("budget", budget)
        .n("lo", lo)
        .n("hi", hi)
        .n("alloc_mode", alloc_mode)
        .b("input_present", job.io.input.is_some())
        .b("output_present", job.io.has_output);
    if let Some(f) = job.io.fault {
        o = o.n("fault_at", f.at).b("fault_err", f.err).n("fault_kind", f.kind as u64).n("fault_once", f.once as u64).s("fault_error_kind", &format!("{:?}", sys::FAULT_KINDS[f.kind as usize % sys::FAULT_KINDS.len()]));
    }
    o
}
