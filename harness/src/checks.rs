//! Check drivers.

use crate::alloc;
use crate::engine::{self, job_json, judge, run_case, Job, Obs, RunOpts, Tally, Verdict};
use crate::gen::{self, Family};
use crate::json::{self, Obj};
use crate::rng::{fnv64, Rng};
use crate::run::{Backend, Cfg, Io, Mode};
use crate::spec::{self, SpecOpts, SpecRun, Status};
use crate::sys::{self, Fault, EV_CAP};
use crate::Args;

pub struct Case {
    pub code: String,
    pub bits: u32,
    pub family: Family,
    pub fixed_input: Option<Vec<u8>>,
}

pub struct Corpus {
    pub items: Vec<(String, Option<Vec<u8>>)>,
    /// width a corpus program was selected for (coverage corpus), by program text
    pub bits: std::collections::HashMap<String, u32>,
}

pub fn load_corpus(dir: &str) -> Corpus {
    let mut items = Vec::new();
    for f in ["regress.txt", "idioms.txt", "seeds.txt"] {
        if let Ok(s) = std::fs::read_to_string(format!("{dir}/{f}")) {
            for l in s.lines() {
                let l = l.trim();
                if !l.is_empty() && spec::check_brackets(l).is_ok() {
                    items.push((l.to_string(), None));
                }
            }
        }
    }
    if let Ok(s) = std::fs::read_to_string(format!("{dir}/examples.tsv")) {
        for l in s.lines() {
            let p: Vec<&str> = l.split('\t').collect();
            if p.len() == 3 {
                items.push((p[2].to_string(), Some(json::unhex(p[1]))));
            }
        }
    }
    let mut bits = std::collections::HashMap::new();
    let cov = format!("{}{}", std::fs::read_to_string(format!("{dir}/jitcov.tsv")).unwrap_or_default(), std::fs::read_to_string(format!("{dir}/bccov.tsv")).unwrap_or_default());
    if !cov.is_empty() {
        let s = cov;
        for l in s.lines() {
            let p: Vec<&str> = l.split('\t').collect();
            if p.len() == 2 && spec::check_brackets(p[1]).is_ok() {
                items.push((p[1].to_string(), None));
                bits.insert(p[1].to_string(), p[0].parse().unwrap_or(8));
            }
        }
    }
    // witnesses of fixed defects that need a particular width and input: bits <TAB> input hex <TAB> program
    if let Ok(s) = std::fs::read_to_string(format!("{dir}/witness.tsv")) {
        for l in s.lines() {
            let p: Vec<&str> = l.split('\t').collect();
            if p.len() == 3 && spec::check_brackets(p[2]).is_ok() {
                items.push((p[2].to_string(), Some(json::unhex(p[1]))));
                bits.insert(p[2].to_string(), p[0].parse().unwrap_or(8));
            }
        }
    }
    Corpus { items, bits }
}

fn pick_bits(rng: &mut Rng, wrapish: bool) -> u32 {
    if wrapish {
        *rng.pick(&[8u32, 8, 8, 8, 8, 16, 16, 16, 32, 64])
    } else {
        *rng.pick(&[8u32, 8, 16, 32, 32, 64, 64])
    }
}

/// Family weights per property: [grammar, structured, pressure, roaming, scan, diverge, mutant]
fn weights(prop: &str) -> [u32; 7] {
    match prop {
        "C01" | "C02" | "C11" | "C13" => [12, 45, 18, 2, 5, 0, 18],
        "C03" => [8, 30, 35, 5, 5, 0, 17],
        "C04" => [35, 25, 5, 5, 10, 0, 20],
        "C06" => [5, 10, 15, 45, 20, 0, 5],
        "C10" => [12, 35, 20, 3, 20, 0, 10],
        "C07" => [15, 30, 10, 3, 7, 20, 15],
        "C08" => [25, 30, 10, 3, 7, 10, 15],
        "C05" => [10, 35, 5, 0, 5, 28, 17],
        _ => [15, 40, 15, 5, 5, 5, 15],
    }
}

pub fn gen_case(prop: &str, rng: &mut Rng, corpus: &Corpus, thorough: bool) -> Case {
    let mut c = gen_case_plain(prop, rng, corpus, thorough);
    if matches!(prop, "C06" | "C03" | "C10") && c.family == Family::Pressure && rng.chance(1, 4) {
        // pressure x roaming: the loop walks along the tape, so tape growth (a runtime call) happens
        // with many temporaries alive
        let mv = if rng.chance(1, 2) { ">" } else { "<" };
        let n = rng.range(1, 60) as usize;
        c.code = c.code.replacen('[', &format!("[{}", mv.repeat(n)), 1);
    }
    if matches!(prop, "C04" | "C07") && rng.chance(1, 4) {
        // end the text on its last `]` (a budget can then run out on the very last byte)
        if let Some(p) = c.code.rfind(']') {
            c.code.truncate(p + 1);
        }
    }
    if prop == "C04" && rng.chance(1, 2) {
        // "every other character is a comment": ASCII, control and multi-byte UTF-8 text anywhere,
        // in particular inside loops that are skipped
        c.code = c12_comment(rng, &c.code).0;
    }
    c
}

fn gen_case_plain(prop: &str, rng: &mut Rng, corpus: &Corpus, thorough: bool) -> Case {
    let w = weights(prop);
    let fam = [Family::Grammar, Family::Structured, Family::Pressure, Family::Roaming, Family::Scan, Family::Diverge, Family::Mutant][rng.weighted(&w)];
    match fam {
        Family::Grammar => {
            let bits = pick_bits(rng, true);
            let len = *rng.pick(&[12usize, 24, 40, 80, 160, 300]);
            Case { code: gen::grammar(rng, len), bits, family: fam, fixed_input: None }
        }
        Family::Structured => {
            let bits = pick_bits(rng, false);
            let wrap_ok = bits <= 16 && rng.chance(1, 2);
            let size = *rng.pick(&[60i64, 150, 300, 600]);
            Case { code: gen::structured(rng, wrap_ok, size), bits, family: fam, fixed_input: None }
        }
        Family::Pressure => {
            let bits = pick_bits(rng, false);
            let wrap_ok = bits <= 16 && rng.chance(1, 3);
            let code = match rng.below(8) {
                0 | 1 => gen::pressure_products(rng),
                2 => gen::cyclic_products(rng),
                _ => gen::pressure(rng, wrap_ok),
            };
            Case { code, bits, family: fam, fixed_input: None }
        }
        Family::Roaming => {
            let bits = pick_bits(rng, false);
            let d = if thorough { 20000 } else { 6000 };
            Case { code: gen::roaming(rng, d), bits, family: fam, fixed_input: None }
        }
        Family::Scan => {
            let bits = pick_bits(rng, false);
            Case { code: gen::scan(rng), bits, family: fam, fixed_input: None }
        }
        Family::Diverge => {
            let bits = *rng.pick(&[8u32, 8, 8, 16, 16, 32, 64]);
            Case { code: gen::diverge(rng), bits, family: fam, fixed_input: None }
        }
        _ => {
            let bits = pick_bits(rng, true);
            let base = if rng.chance(1, 2) && !corpus.items.is_empty() {
                let it = rng.pick(&corpus.items);
                if it.0.len() < 600 {
                    it.0.clone()
                } else {
                    gen::structured(rng, bits <= 16, 150)
                }
            } else {
                gen::structured(rng, bits <= 16, 150)
            };
            Case { code: gen::mutate(rng, &base), bits, family: Family::Mutant, fixed_input: None }
        }
    }
}

fn spec_opts(bits: u32, thorough: bool, detect: bool) -> SpecOpts {
    SpecOpts { bits, step_cap: if thorough { 1_000_000 } else { 200_000 }, event_cap: EV_CAP, detect_cycles: detect }
}

fn high_level(rng: &mut Rng) -> u32 {
    *rng.pick(&[4u32, 5, 7, 100, u32::MAX])
}

/// Jobs per property for one (program, input, width) whose canonical run is `sp`.
fn jobs_for(prop: &str, rng: &mut Rng, case: &Case, input: &[u8], sp: &SpecRun, thorough: bool) -> Vec<Job> {
    let bits = case.bits;
    let io = Io::plain(input);
    let mut jobs = Vec::new();
    let mut push = |backend: Backend, level: u32, mode: Mode, io: &Io| {
        jobs.push(Job { cfg: Cfg { backend, bits, level, mode }, io: io.clone() });
    };
    let halted = sp.status == Status::Halted;
    match prop {
        "C01" => {
            if halted {
                for l in [0, 1, 2, 3] {
                    push(Backend::IrInt, l, Mode::Exec, &io);
                }
                push(Backend::IrInt, high_level(rng), Mode::Exec, &io);
            }
        }
        "C02" => {
            if halted {
                for l in [0, 1, 2, 3] {
                    push(Backend::BcInt, l, Mode::Exec, &io);
                }
            }
        }
        "C03" => {
            if halted {
                for l in [0, 1, 2, 3] {
                    push(Backend::Jit, l, Mode::Exec, &io);
                }
                if rng.chance(1, 4) {
                    push(Backend::Jit, high_level(rng), Mode::Exec, &io);
                }
            }
        }
        "C04" => {
            if halted {
                push(Backend::Inplace, 0, Mode::Exec, &io);
                push(Backend::Inplace, *rng.pick(&[1u32, 2, 3]), Mode::Limited(usize::MAX), &io);
                // the fuzzer's oracle is the *limited* path: a cut-short run must say so
                let n = sp.backedges.max(1);
                for bud in [0u64, 1, 2, 3, n - 1, n.saturating_sub(2), rng.below(n), rng.below(n), rng.below(n)] {
                    push(Backend::Inplace, 0, Mode::Limited(bud as usize), &io);
                }
            }
        }
        "C06" => {
            if halted {
                for b in [Backend::Inplace, Backend::IrInt, Backend::BcInt, Backend::Jit] {
                    let levels: Vec<u32> = if b == Backend::Inplace { vec![0] } else if thorough { vec![0, 1, 2, 3] } else { vec![0, *rng.pick(&[1u32, 2, 3])] };
                    for l in levels {
                        push(b, l, Mode::Exec, &io);
                    }
                }
            }
        }
        "C10" => {
            if halted {
                let len = case.code.chars().count() as isize;
                let lo = sp.lo as isize - len;
                let hi = sp.hi as isize + len + 1;
                for b in [Backend::BcInt, Backend::Jit] {
                    for l in [0, 1, 2, 3] {
                        push(b, l, Mode::Unsafe { lo, hi }, &io);
                    }
                    // "the canonical events" include stopping at a refused / failed operation: the
                    // unchecked variants of the I/O operations must stop there too
                    let l = *rng.pick(&[0u32, 1, 2, 3]);
                    if sp.total_events > 0 {
                        let k = rng.below(sp.total_events.min(EV_CAP as u64));
                        let kind = rng.below(sys::FAULT_KINDS.len() as u64) as u8;
                        let f = Io { input: Some(input.to_vec()), has_output: true, fault: Some(Fault { at: k, err: rng.chance(1, 2), kind, once: rng.chance(1, 3) }) };
                        push(b, l, Mode::Unsafe { lo, hi }, &f);
                    }
                    let f = Io { input: None, has_output: true, fault: None };
                    push(b, l, Mode::Unsafe { lo, hi }, &f);
                }
            }
        }
        "C07" => {
            let mut budgets: Vec<usize> = vec![0, 1, 2, 3, 5, 10, 30, 100, 1000, 10_000, 100_000];
            budgets.push(rng.range(4, 5000) as usize);
            budgets.push(rng.range(1, 300) as usize);
            if halted {
                budgets.extend_from_slice(&[1usize << 31, 1usize << 62, usize::MAX, usize::MAX - 1, (1usize << 32) + 2]);
                // boundary budgets around powers of two (width-dependent arithmetic on the counter)
                for _ in 0..5 {
                    let k = *rng.pick(&[31u32, 32, 32, 33, 40, 48, 61, 62, 63]);
                    let d = *rng.pick(&[0usize, 1, 2, 3, 5, 9]);
                    let b = if rng.chance(1, 4) { (1usize << k).wrapping_sub(d + 1) } else { (1usize << k).wrapping_add(d) };
                    if b >= (1usize << 31) {
                        budgets.push(b);
                    }
                }
            } else {
                for _ in 0..2 {
                    let k = *rng.pick(&[4u32, 8, 12, 16]);
                    budgets.push((1usize << k) + *rng.pick(&[0usize, 1, 2, 3]));
                }
            }
            let lv = [*rng.pick(&[0u32, 1]), *rng.pick(&[2u32, 3])];
            for b in [Backend::Inplace, Backend::IrInt, Backend::BcInt, Backend::Jit] {
                let levels: &[u32] = if b == Backend::Inplace { &[0] } else { &lv };
                for &l in levels {
                    for &bud in &budgets {
                        push(b, l, Mode::Limited(bud), &io);
                    }
                }
            }
        }
        "C08" => {
            // fault enumeration over event positions
            let total = sp.total_events.min(EV_CAP as u64);
            let maxk = if thorough { 64 } else { 24 };
            let mut ks: Vec<u64> = (0..total.min(maxk)).collect();
            if total > maxk {
                for _ in 0..4 {
                    ks.push(rng.range(maxk as i64, total as i64 - 1) as u64);
                }
            }
            let lv = *rng.pick(&[0u32, 1, 2, 3]);
            for b in [Backend::Inplace, Backend::IrInt, Backend::BcInt, Backend::Jit] {
                let l = if b == Backend::Inplace { 0 } else { lv };
                for &k in &ks {
                    for err in [false, true] {
                        // every error kind must stop the program, also the ones std helpers retry on
                        // (Interrupted) and also when a later attempt would succeed
                        let kind = if err && rng.chance(2, 3) { rng.below(sys::FAULT_KINDS.len() as u64) as u8 } else { 0 };
                        let once = rng.chance(1, 3);
                        let f = Io { input: Some(input.to_vec()), has_output: true, fault: Some(Fault { at: k, err, kind, once }) };
                        push(b, l, Mode::Exec, &f);
                    }
                }
                // absent input / absent output
                let f = Io { input: None, has_output: true, fault: None };
                push(b, l, Mode::Exec, &f);
                if halted {
                    let f = Io { input: Some(input.to_vec()), has_output: false, fault: None };
                    push(b, l, Mode::Exec, &f);
                }
                // failure under unchecked execution too (region taken from the complete canonical run)
                if halted && matches!(b, Backend::BcInt | Backend::Jit) {
                    let len = case.code.chars().count() as isize;
                    let (lo, hi) = (sp.lo as isize - len, sp.hi as isize + len + 1);
                    for &k in ks.iter().take(6) {
                        let f = Io { input: Some(input.to_vec()), has_output: true, fault: Some(Fault { at: k, err: rng.chance(1, 2), kind: rng.below(sys::FAULT_KINDS.len() as u64) as u8, once: false }) };
                        push(b, l, Mode::Unsafe { lo, hi }, &f);
                    }
                    let f = Io { input: None, has_output: true, fault: None };
                    push(b, l, Mode::Unsafe { lo, hi }, &f);
                }
                // failure under limited execution too
                if let Some(&k) = ks.first() {
                    let f = Io { input: Some(input.to_vec()), has_output: true, fault: Some(Fault { at: k, err: true, kind: 1, once: true }) };
                    push(b, l, Mode::Limited(1 << 40), &f);
                }
            }
        }
        _ => {}
    }
    jobs
}

fn alloc_modes(prop: &str) -> Vec<u32> {
    // sanitizer builds bring their own red zones: the guard allocator is switched off there
    if std::env::var("HV_ALLOC_PASS").is_ok() {
        return vec![alloc::PASS];
    }
    match prop {
        "C06" | "C10" => vec![alloc::GUARD_RIGHT, alloc::GUARD_LEFT],
        _ => vec![alloc::PASS],
    }
}

/// Can a fault-position job for a diverging canonical run be judged? Only if the fault
/// position lies inside the recorded canonical events.
fn judgeable(prop: &str, job: &Job, sp: &SpecRun) -> bool {
    if sp.status == Status::Halted {
        return true;
    }
    match prop {
        "C07" => matches!(job.cfg.mode, Mode::Limited(b) if b <= 100_000),
        "C08" => {
            // stop must happen before the canonical run leaves the recorded prefix
            match (&job.io.fault, &job.io.input) {
                (Some(f), _) => (f.at as usize) < sp.events.len(),
                (None, None) => sp.events.iter().any(|&e| !spec::ev_is_out(e)),
                _ => false,
            }
        }
        _ => false,
    }
}

pub fn diff(args: &Args) -> i32 {
    let prop = args.get("prop").unwrap_or("C01").to_string();
    let corpus = load_corpus(&args.corpus);
    let mut t = Tally::new(&prop, &args.replay_dir);
    let start = std::time::Instant::now();
    let ncorpus = corpus.items.len() as u64;
    let total = args.count + if args.get("no-corpus").is_some() { 0 } else { ncorpus };
    let mut idx = args.shard;
    let mut stopped_by_time = false;
    while idx < total {
        if start.elapsed().as_secs() >= args.secs {
            stopped_by_time = true;
            break;
        }
        let mut rng = Rng::derive(args.seed, fnv64(prop.as_bytes()), idx);
        let case = if args.get("no-corpus").is_none() && idx < ncorpus {
            let it = &corpus.items[idx as usize];
            let bits = if let Some(&b) = corpus.bits.get(&it.0) { b } else if it.1.is_some() { 8 } else { *rng.pick(&[8u32, 8, 16, 32, 64]) };
            let code = if prop == "C04" && idx % 2 == 1 { c12_comment(&mut rng, &it.0).0 } else { it.0.clone() };
            Case { code, bits, family: Family::Corpus, fixed_input: it.1.clone() }
        } else {
            gen_case(&prop, &mut rng, &corpus, args.thorough)
        };
        idx += args.nshards;
        run_one_case(&prop, &mut rng, &case, args.thorough, &mut t);
        if t.violations.len() >= 40 {
            t.inc("stopped_after_40_violations", 1);
            break;
        }
    }
    t.inc("stopped_by_time", stopped_by_time as u64);
    t.write(&args.out, &[("wall_s".to_string(), format!("{:.2}", start.elapsed().as_secs_f64()))]);
    if t.violations.is_empty() {
        0
    } else {
        1
    }
}

pub fn run_one_case(prop: &str, rng: &mut Rng, case: &Case, thorough: bool, t: &mut Tally) {
    t.inc("programs", 1);
    t.inc(&format!("family.{}", case.family.name()), 1);
    t.inc(&format!("bits.{}", case.bits), 1);
    let inputs = match &case.fixed_input {
        Some(i) => vec![i.clone()],
        None => gen::inputs(rng, thorough),
    };
    let detect = matches!(prop, "C07" | "C08" | "C05");
    let reads_input = case.code.contains(',');
    for (ii, input) in inputs.iter().enumerate() {
        if ii > 0 && !reads_input {
            break;
        }
        let sp = match spec::run(&case.code, input, spec_opts(case.bits, thorough, detect)) {
            Some(s) => s,
            None => {
                t.inc("generator_unbalanced", 1);
                return;
            }
        };
        match sp.status {
            Status::Halted => t.inc("spec.halted", 1),
            Status::Cycle { .. } => t.inc("spec.cycle_proved", 1),
            Status::Cap => {
                t.inc("spec.skipped_too_long", 1);
                continue;
            }
        }
        let mut jobs = jobs_for(prop, rng, case, input, &sp, thorough);
        jobs.retain(|j| judgeable(prop, j, &sp));
        if jobs.is_empty() {
            t.inc("cases_without_jobs", 1);
            continue;
        }
        t.inc("cases", 1);
        t.inc("canonical_steps", sp.steps);
        t.inc("canonical_events", sp.total_events);
        t.max("max_excursion", (sp.hi - sp.lo) as u64);
        let h = fnv64(format!("{}|{}|{}", case.code, json::hex(input), case.bits).as_bytes());
        let nontrivial = sp.loop_iters >= 1 && sp.total_events >= 1;
        if nontrivial {
            t.distinct.insert(h);
        }
        let mut confirmed_hang = false;
        for am in alloc_modes(prop) {
            for chunk in jobs.chunks(sys::MAX_CFG) {
                if confirmed_hang || t.violations.len() >= 40 {
                    // a tree that already violates: do not spend minutes per case on repeated hangs
                    t.inc("jobs_skipped_after_violations", chunk.len() as u64);
                    continue;
                }
                // canonical runs are capped at 2e5 (quick) / 1e6 (thorough) steps: every back end
                // needs milliseconds; the ceiling is 3-5 s and 10x that when re-run alone
                let ceiling = match prop {
                    "C07" | "C08" => 3,
                    _ => if thorough { 5 } else { 3 },
                };
                let o = RunOpts { alloc_mode: am, ceiling_s: ceiling, ..Default::default() };
                let obs = run_case(&case.code, chunk, &o);
                for (job, ob) in chunk.iter().zip(obs.iter()) {
                    t.inc("evaluations", 1);
                    t.inc(&format!("eval.{}", job.cfg.backend.name()), 1);
                    t.inc("events_compared", ob.n_events.min(EV_CAP as u64));
                    if ob.reran {
                        t.inc("isolated_reruns", 1);
                        if ob.end == engine::End::Timeout {
                            confirmed_hang = true;
                        }
                    }
                    if ob.aux[5] >= 12 {
                        t.inc("bytecodes_with_stack_temps", 1);
                    }
                    let mut v = judge(job, &sp, ob);
                    if v == Verdict::Held && ob.aux[3] != 0 {
                        // the in-child bytecode validator fired (reported under C11 by its own check;
                        // here it is only counted)
                        t.inc("c11_validator_fired", 1);
                    }
                    if prop == "C07" && v == Verdict::Held {
                        v = judge_budget(job, &sp, ob);
                    }
                    match v {
                        Verdict::Held => t.inc("held", 1),
                        Verdict::Inconclusive(why) => {
                            t.inc("inconclusive", 1);
                            t.inconclusive.push(format!("{} :: {}", job.cfg.describe(), why));
                        }
                        Verdict::Violated(why) => {
                            t.inc("violated", 1);
                            let sig = format!("{}|{}", job.cfg.backend.name(), why.split(':').next().unwrap_or(""));
                            let body = job_json(&case.code, input, job, am)
                                .s("why", &why)
                                .s("family", case.family.name())
                                .s("expected", &spec::fmt_events(&sp.events, 40))
                                .s("observed", &spec::fmt_events(&ob.events, 40));
                            t.violation(&sig, body);
                        }
                    }
                }
            }
        }
        if t.samples.len() < t.max_samples && nontrivial {
            t.sample(
                Obj::new()
                    .s("program", &case.code)
                    .s("input_hex", &json::hex(input))
                    .n("bits", case.bits)
                    .s("family", case.family.name())
                    .n("canonical_steps", sp.steps)
                    .s("canonical_events", &spec::fmt_events(&sp.events, 24))
                    .n("jobs", jobs.len())
                    .done(),
            );
        }
    }
}

/// C07 extras: unlimited budgets must finish halting programs.
fn judge_budget(job: &Job, sp: &SpecRun, ob: &Obs) -> Verdict {
    if let Mode::Limited(b) = job.cfg.mode {
        if sp.status == Status::Halted && b >= (1usize << 31) && !ob.finished() && job.io.fault.is_none() {
            return Verdict::Violated(format!(
                "budget {b} is effectively unlimited and the canonical run halts after {} steps, but the run reported interrupted",
                sp.steps
            ));
        }
    }
    Verdict::Held
}

/// Run a single job given on the command line (replay).
pub fn one(args: &Args) -> i32 {
    let code = match args.get("code-file") {
        Some(f) => std::fs::read_to_string(f).expect("code file"),
        None => args.get("code").unwrap_or("").to_string(),
    };
    let input = json::unhex(args.get("input-hex").unwrap_or(""));
    let bits = args.get_u64("bits", 8) as u32;
    let backend = Backend::parse(args.get("backend").unwrap_or("irint")).expect("backend");
    let level = args.get_u64("level", 2) as u32;
    let mode = match args.get("mode").unwrap_or("exec") {
        "limited" => Mode::Limited(args.get_u64("budget", 1000) as usize),
        "unsafe" => Mode::Unsafe {
            lo: args.get("lo").and_then(|s| s.parse().ok()).unwrap_or(-64),
            hi: args.get("hi").and_then(|s| s.parse().ok()).unwrap_or(64),
        },
        _ => Mode::Exec,
    };
    let fault = args.get("fault-at").map(|k| Fault { at: k.parse().unwrap(), err: args.get("fault-err").map(|s| s == "true" || s == "1").unwrap_or(false), kind: args.get_u64("fault-kind", 0) as u8, once: args.get_u64("fault-once", 0) == 1 });
    let io = Io {
        input: if args.get("no-input").is_some() { None } else { Some(input.clone()) },
        has_output: args.get("no-output").is_none(),
        fault,
    };
    let job = Job { cfg: Cfg { backend, bits, level, mode }, io };
    let fail = |why: &str| {
        println!("verdict: Violated({why:?})");
        println!("VIOLATION property={} replay={}", args.get("prop").unwrap_or("?"), args.get("replay-path").unwrap_or("-"));
        1
    };
    // (1) unbalanced source: compare the create() result with the reference matcher
    if let Err((not_opened, pos)) = spec::check_brackets(&code) {
        let o = RunOpts { ceiling_s: 20, validate_bc: false, cover_bc: false, ..Default::default() };
        let obs = run_case(&code, std::slice::from_ref(&job), &o);
        let ob = &obs[0];
        println!("reference: {} at char {pos}; observed: end={:?} state={} kind={} pos={}", if not_opened { "loop not opened" } else { "loop not closed" }, ob.end, ob.state, ob.aux[6], ob.aux[7]);
        if backend == Backend::Inplace {
            return if ob.end != engine::End::Normal || ob.state == sys::ST_PANICKED { fail("in-place interpreter crashed on an unbalanced string") } else { println!("verdict: Held"); 0 };
        }
        let wk = if not_opened { 2 } else { 1 };
        return if ob.end != engine::End::Normal || ob.state != sys::ST_CREATE_ERR || ob.aux[6] != wk || ob.aux[7] != pos as u64 { fail("parser verdict differs from the reference matcher") } else { println!("verdict: Held"); 0 };
    }
    let sp = spec::run(&code, &input, SpecOpts { bits, step_cap: args.get_u64("step-cap", 5_000_000), event_cap: EV_CAP, detect_cycles: true });
    let sp = match sp {
        Some(s) => s,
        None => {
            println!("unbalanced program");
            return 2;
        }
    };
    // (2) allocation-failure replay
    if let Some(k) = args.get("fail-at") {
        let k: u64 = k.parse().unwrap_or(1);
        let o = RunOpts { alloc_mode: alloc::FAIL, fail_at: k, ceiling_s: 20, rerun_on_timeout: false, validate_bc: false, cover_bc: false, ..Default::default() };
        let obs = run_case(&code, std::slice::from_ref(&job), &o);
        let ob = &obs[0];
        println!("failing allocation {k}: end={:?} state={} events={}", ob.end, ob.state, spec::fmt_events(&ob.events, 32));
        let prefix_ok = ob.events.len() <= sp.events.len() && ob.events[..] == sp.events[..ob.events.len()];
        return match (&ob.end, ob.state) {
            (engine::End::Crash(6), _) | (engine::End::Normal, sys::ST_PANICKED) if prefix_ok => {
                println!("verdict: Held");
                0
            }
            (engine::End::Normal, sys::ST_RETURNED) if sys::shared().scratch[14] == 0 => {
                println!("verdict: Held (the failing request was not reached)");
                0
            }
            _ => fail("did not end by the allocation-failure abort or a panic with a canonical prefix"),
        };
    }
    // (3) provably diverging canonical run under plain execute: bounded-window observation
    if let (Status::Cycle { events_before, events_per_period, .. }, Mode::Exec, None) = (sp.status, job.cfg.mode, job.io.fault) {
        let window = args.get_u64("window-ms", 300);
        let (returned, ob) = probe(&code, &job, window * 10);
        println!("canonical: {:?}; window {} ms: returned={} end={:?} events={}", sp.status, window * 10, returned, ob.end, spec::fmt_events(&ob.events, 32));
        let n = ob.events.len().min(sp.events.len());
        if returned || ob.end != engine::End::Timeout {
            return fail("returned / ended although the canonical run provably diverges");
        }
        if ob.events[..n] != sp.events[..n] {
            return fail("events differ from the canonical ones");
        }
        if events_per_period == 0 && ob.n_events != sp.total_events {
            return fail("event count differs from the canonical run before its silent cycle");
        }
        if events_per_period != 0 && ob.n_events <= events_before {
            return fail("no event of the printing cycle was produced");
        }
        println!("verdict: Held");
        return 0;
    }
    let o = RunOpts { alloc_mode: args.get_u64("alloc-mode", 0) as u32, ceiling_s: args.get_u64("ceiling", 20) as u32, ..Default::default() };
    let obs = run_case(&code, std::slice::from_ref(&job), &o);
    let v = judge(&job, &sp, &obs[0]);
    let v = if v == Verdict::Held { judge_budget(&job, &sp, &obs[0]) } else { v };
    println!("spec: {:?} steps={} events={}", sp.status, sp.steps, sp.total_events);
    println!("expected: {}", spec::fmt_events(&sp.events, 64));
    println!("observed: {} (end={:?} state={} finished={})", spec::fmt_events(&obs[0].events, 64), obs[0].end, obs[0].state, obs[0].finished());
    println!("verdict: {:?}", v);
    match v {
        Verdict::Violated(_) => {
            println!("VIOLATION property={} replay={}", args.get("prop").unwrap_or("?"), args.get("replay-path").unwrap_or("-"));
            1
        }
        _ => 0,
    }
}

pub fn gen_dump(args: &Args) -> i32 {
    let prop = args.get("prop").unwrap_or("C01").to_string();
    let corpus = load_corpus(&args.corpus);
    for idx in 0..args.count {
        let mut rng = Rng::derive(args.seed, fnv64(prop.as_bytes()), idx + 1_000_000);
        let c = gen_case(&prop, &mut rng, &corpus, args.thorough);
        println!("{}\t{}\t{}", c.family.name(), c.bits, c.code);
    }
    0
}

#[allow(dead_code)]
fn unused(_: &engine::End) {}

// ---- shrinking -----------------------------------------------------------------------------------

fn still_violates(code: &str, input: &[u8], job: &Job, alloc_mode: u32, step_cap: u64) -> bool {
    if spec::check_brackets(code).is_err() {
        return false;
    }
    let sp = match spec::run(code, input, SpecOpts { bits: job.cfg.bits, step_cap, event_cap: EV_CAP, detect_cycles: !matches!(job.cfg.mode, Mode::Exec | Mode::Unsafe { .. }) }) {
        Some(s) => s,
        None => return false,
    };
    if sp.status == Status::Cap {
        return false;
    }
    if sp.status != Status::Halted && matches!(job.cfg.mode, Mode::Exec | Mode::Unsafe { .. }) {
        return false;
    }
    let mut j = job.clone();
    j.io.input = j.io.input.as_ref().map(|_| input.to_vec());
    if let Mode::Unsafe { .. } = j.cfg.mode {
        let len = code.chars().count() as isize;
        j.cfg.mode = Mode::Unsafe { lo: sp.lo as isize - len, hi: sp.hi as isize + len + 1 };
    }
    let o = RunOpts { alloc_mode, ceiling_s: 5, rerun_on_timeout: false, validate_bc: false, cover_bc: false, mem_limit: 0, fail_at: 0 };
    let obs = run_case(code, std::slice::from_ref(&j), &o);
    let v = judge(&j, &sp, &obs[0]);
    let v = if v == Verdict::Held { judge_budget(&j, &sp, &obs[0]) } else { v };
    matches!(v, Verdict::Violated(_))
}

fn matching(chars: &[char], open: usize) -> usize {
    let mut d = 0;
    for i in open..chars.len() {
        if chars[i] == '[' {
            d += 1;
        } else if chars[i] == ']' {
            d -= 1;
            if d == 0 {
                return i;
            }
        }
    }
    open
}

pub fn shrink(code: &str, input: &[u8], job: &Job, alloc_mode: u32) -> (String, Vec<u8>) {
    let step_cap = 2_000_000;
    let mut cur: Vec<char> = code.chars().collect();
    let mut inp = input.to_vec();
    let test = |c: &[char], i: &[u8]| still_violates(&c.iter().collect::<String>(), i, job, alloc_mode, step_cap);
    if !test(&cur, &inp) {
        return (code.to_string(), inp);
    }
    let mut progress = true;
    let mut rounds = 0;
    while progress && rounds < 40 {
        progress = false;
        rounds += 1;
        // chunk removal
        let mut size = (cur.len() / 2).max(1);
        while size >= 1 {
            let mut i = 0;
            while i + size <= cur.len() {
                let mut cand = cur.clone();
                cand.drain(i..i + size);
                if test(&cand, &inp) {
                    cur = cand;
                    progress = true;
                } else {
                    i += if size > 4 { size / 2 } else { 1 };
                }
            }
            if size == 1 {
                break;
            }
            size /= 2;
        }
        // unwrap bracket pairs / remove whole loops
        let mut i = 0;
        while i < cur.len() {
            if cur[i] == '[' {
                let z = matching(&cur, i);
                let mut cand = cur.clone();
                cand.remove(z);
                cand.remove(i);
                if test(&cand, &inp) {
                    cur = cand;
                    progress = true;
                    continue;
                }
                let mut cand = cur.clone();
                cand.drain(i..=z);
                if test(&cand, &inp) {
                    cur = cand;
                    progress = true;
                    continue;
                }
            }
            i += 1;
        }
        // input: drop bytes, then lower bytes
        let mut k = 0;
        while k < inp.len() {
            let mut cand = inp.clone();
            cand.remove(k);
            if test(&cur, &cand) {
                inp = cand;
                progress = true;
            } else {
                k += 1;
            }
        }
        for k in 0..inp.len() {
            for v in [0u8, 1, 2, 3] {
                if v < inp[k] {
                    let mut cand = inp.clone();
                    cand[k] = v;
                    if test(&cur, &cand) {
                        inp = cand;
                        progress = true;
                        break;
                    }
                }
            }
        }
    }
    (cur.into_iter().collect(), inp)
}

pub fn shrink_cmd(args: &Args) -> i32 {
    let code = match args.get("code-file") {
        Some(f) => std::fs::read_to_string(f).expect("code file"),
        None => args.get("code").unwrap_or("").to_string(),
    };
    let input = json::unhex(args.get("input-hex").unwrap_or(""));
    let bits = args.get_u64("bits", 8) as u32;
    let backend = Backend::parse(args.get("backend").unwrap_or("irint")).expect("backend");
    let level = args.get_u64("level", 2) as u32;
    let mode = match args.get("mode").unwrap_or("exec") {
        "limited" => Mode::Limited(args.get_u64("budget", 1000) as usize),
        "unsafe" => Mode::Unsafe { lo: 0, hi: 0 },
        _ => Mode::Exec,
    };
    let fault = args.get("fault-at").map(|k| Fault { at: k.parse().unwrap(), err: args.get("fault-err").map(|s| s == "true" || s == "1").unwrap_or(false), kind: args.get_u64("fault-kind", 0) as u8, once: args.get_u64("fault-once", 0) == 1 });
    let io = Io { input: if args.get("no-input").is_some() { None } else { Some(input.clone()) }, has_output: args.get("no-output").is_none(), fault };
    let job = Job { cfg: Cfg { backend, bits, level, mode }, io };
    let (c, i) = shrink(&code, &input, &job, args.get_u64("alloc-mode", 0) as u32);
    println!("{}\t{}", c, json::hex(&i));
    0
}

/// Dump canonical runs for cross-checking against the second (Python) oracle.
pub fn specdump(args: &Args) -> i32 {
    let prop = args.get("prop").unwrap_or("C01").to_string();
    let corpus = load_corpus(&args.corpus);
    for idx in 0..args.count {
        let mut rng = Rng::derive(args.seed, fnv64(prop.as_bytes()) ^ 0x5eed, idx);
        let c = if (idx as usize) < corpus.items.len() && idx % 2 == 0 {
            let it = &corpus.items[idx as usize];
            Case { code: it.0.clone(), bits: *rng.pick(&[8u32, 16, 32, 64]), family: Family::Corpus, fixed_input: it.1.clone() }
        } else {
            gen_case(&prop, &mut rng, &corpus, false)
        };
        let inputs = match &c.fixed_input {
            Some(i) => vec![i.clone()],
            None => gen::inputs(&mut rng, false),
        };
        let input = &inputs[(idx as usize) % inputs.len()];
        if let Some(sp) = spec::run(&c.code, input, SpecOpts { bits: c.bits, step_cap: 100_000, event_cap: EV_CAP, detect_cycles: false }) {
            let st = match sp.status {
                Status::Halted => "halted",
                Status::Cycle { .. } => "cycle",
                Status::Cap => "cap",
            };
            let evs: Vec<String> = sp.events.iter().map(|e| e.to_string()).collect();
            println!("{}\t{}\t{}\t{}\t{}", c.bits, json::hex(input), st, evs.join(","), json::hex(c.code.as_bytes()));
        }
    }
    0
}

/// Print the bytecode (as the JIT or the interpreter gets it) with the selector case of each instruction.
pub fn bcdump(args: &Args) -> i32 {
    use hpbf::{bc, ir};
    let code = args.get("code").unwrap_or("").to_string();
    let bits = args.get_u64("bits", 8) as u32;
    let level = args.get_u64("level", 2) as u32;
    let jit = args.get("backend").unwrap_or("basejit") != "bcint";
    fn go<C: hpbf::CellType>(code: &str, level: u32, jit: bool) -> crate::bcview::BcView {
        let p = ir::Program::<C>::parse(code).unwrap().optimize(level);
        let b = if jit { bc::CodeGen::translate(&p, 11, false) } else { bc::CodeGen::translate(&p, 2, true) };
        crate::bcview::view(&b)
    }
    let v = match bits {
        8 => go::<u8>(&code, level, jit),
        16 => go::<u16>(&code, level, jit),
        32 => go::<u32>(&code, level, jit),
        _ => go::<u64>(&code, level, jit),
    };
    println!("temps {} window [{}, {}]", v.temps, v.min, v.max);
    for i in 0..v.insts.len() {
        let key = if jit { crate::bcref::selector_key(&v, i) } else { crate::bcref::bcint_key(&v, i) };
        println!("{:4} {:04x} {:<60} {}", i, v.live[i], format!("{:?}", v.insts[i]), key);
    }
    let vs = crate::bcref::validate(&v, if jit { 11 } else { 2 });
    for x in vs {
        println!("VALIDATOR: {:?}", x);
    }
    0
}

// ---- C17: allocation-failure enumeration --------------------------------------------------------

fn c17_programs(rng: &mut Rng, n: usize) -> Vec<(String, &'static str)> {
    let mut v: Vec<(String, &'static str)> = vec![
        ("+.>+.".to_string(), "first allocation"),
        ("+<<<<<<<<<<<<<<<<<<<<+.>>>>>>>>>>>>>>>>>>>>.".to_string(), "grow left"),
        ("+>>>>>>>>>>>>>>>>>>>>>>>>>>>>>>>>>>>>>>>>+.<<<<<<<<<<<<<<<<<<<<<<<<<<<<<<<<<<<<<<<<.".to_string(), "grow right"),
        ("+[>+<-]>[<<+>>>+<-]<<.>>>.".to_string(), "both directions"),
        ("++++++++[>++++++++<-]>[>+>+<<-]>.>.<<<<<<<<<+.".to_string(), "loop then left"),
        ("++++[>+<<+>-]>.<<.".to_string(), "window on both sides"),
        (",[>,]<[.<]".to_string(), "input driven growth right"),
        (",[<,]>[.>]".to_string(), "input driven growth left"),
    ];
    // far moves in both directions with a marker that is printed afterwards
    let mut far = String::from("+++");
    for _ in 0..700 {
        far.push('>');
    }
    far.push_str("++.");
    for _ in 0..1500 {
        far.push('<');
    }
    far.push_str("+.");
    for _ in 0..800 {
        far.push('>');
    }
    far.push('.');
    v.push((far, "far right then far left, revisit"));
    v.push(("+[>+<-]+>[>[>]+[<]>-]>[.>]".to_string(), "scan growth"));
    // many temporaries: the interpreter context is sized from the bytecode's temp count
    v.push((",>,>,>,[-<+<+<+>>>]<[->+<<+>]<[->>+<]<[->+>+<<]>.>.>.".to_string(), "several temporaries"));
    v.push((gen::pressure(rng, false), "generated register pressure"));
    v.push((gen::pressure_products(rng), "generated register pressure"));
    v.push((gen::cyclic_products(rng), "generated register pressure"));
    let mut k = 0;
    while v.len() < n {
        k += 1;
        if k % 3 == 0 {
            v.push((gen::pressure(rng, false), "generated register pressure"));
        } else {
            v.push((gen::roaming(rng, 4000), "generated roaming"));
        }
    }
    v
}

pub fn c17(args: &Args) -> i32 {
    let mut t = Tally::new("C17", &args.replay_dir);
    let start = std::time::Instant::now();
    let mut rng = Rng::derive(args.seed, 17, 0);
    let progs = c17_programs(&mut rng, args.count as usize);
    let mut idx = args.shard as usize;
    while idx < progs.len() {
        let (code, kind) = &progs[idx];
        idx += args.nshards as usize;
        let bits = *rng.pick(&[8u32, 16, 32, 64]);
        let input: Vec<u8> = vec![3, 1, 4, 1, 5, 9, 2, 6];
        let sp = match spec::run(code, &input, spec_opts(bits, true, false)) {
            Some(s) if s.status == Status::Halted => s,
            _ => {
                t.inc("spec.skipped", 1);
                continue;
            }
        };
        t.inc("programs", 1);
        t.inc(&format!("kind.{kind}"), 1);
        for backend in [Backend::Inplace, Backend::IrInt, Backend::BcInt, Backend::Jit] {
            for level in [0u32, 2] {
                if backend == Backend::Inplace && level != 0 {
                    continue;
                }
                let job = Job { cfg: Cfg { backend, bits, level, mode: Mode::Exec }, io: Io::plain(&input) };
                // clean run: count armed allocations
                let o = RunOpts { alloc_mode: alloc::FAIL, fail_at: 0, ceiling_s: 10, validate_bc: false, cover_bc: false, ..Default::default() };
                let clean = run_case(code, std::slice::from_ref(&job), &o);
                if judge(&job, &sp, &clean[0]) != Verdict::Held {
                    t.inc("clean_run_not_held", 1);
                    continue;
                }
                let n = clean[0].aux[1];
                t.inc("clean_runs", 1);
                t.max("max_allocations_in_one_run", n);
                let maxk = n.min(if args.thorough { 400 } else { 60 });
                for k in 1..=maxk {
                    sys::shared().scratch[14] = 0;
                    sys::shared().scratch[15] = 0;
                    let o = RunOpts { alloc_mode: alloc::FAIL, fail_at: k, ceiling_s: 10, rerun_on_timeout: false, validate_bc: false, cover_bc: false, ..Default::default() };
                    let obs = run_case(code, std::slice::from_ref(&job), &o);
                    let ob = &obs[0];
                    let failed_kind = sys::shared().scratch[14];
                    let failed_size = sys::shared().scratch[15];
                    t.inc("evaluations", 1);
                    t.inc(&format!("eval.{}", backend.name()), 1);
                    if failed_kind == 0 {
                        t.inc("fault_not_reached", 1);
                        continue;
                    }
                    t.inc(if failed_kind == 2 { "failed.zeroed_request (tape / context)" } else { "failed.plain_request (Vec etc.)" }, 1);
                    t.distinct.insert(fnv64(format!("{code}|{bits}|{}|{level}|{k}", backend.name()).as_bytes()));
                    let prefix_ok = ob.events.len() <= sp.events.len() && ob.events[..] == sp.events[..ob.events.len()];
                    let verdict: Result<&str, String> = match (&ob.end, ob.state) {
                        (engine::End::Crash(6), _) => Ok("abort"),
                        (engine::End::Normal, sys::ST_PANICKED) => Ok("panic"),
                        (engine::End::Crash(s), _) => Err(format!("died with signal {s} instead of aborting")),
                        (engine::End::GuardFault { addr, .. }, _) => Err(format!("memory fault at {addr:#x} after the failed allocation (null or stale tape used)")),
                        (engine::End::Normal, _) => Err("execution continued and returned normally after the failed allocation".to_string()),
                        (engine::End::Timeout, _) => {
                            t.inc("inconclusive", 1);
                            t.inconclusive.push(format!("{} k={k}: watchdog", job.cfg.describe()));
                            continue;
                        }
                        (e, _) => Err(format!("unexpected end {e:?}")),
                    };
                    let verdict = match verdict {
                        Ok(v) if !prefix_ok => Err(format!("ended by {v} but the events before it are not a prefix of the canonical run")),
                        v => v,
                    };
                    match verdict {
                        Ok(v) => {
                            t.inc("held", 1);
                            t.inc(&format!("ending.{v}"), 1);
                            if t.samples.len() < t.max_samples && failed_kind == 2 {
                                t.sample(Obj::new().s("program", &code[..code.len().min(120)]).n("bits", bits).s("backend", backend.name()).n("level", level).n("failed_allocation_index", k).n("failed_request_bytes", failed_size).s("ending", v).n("events_before", ob.events.len()).done());
                            }
                        }
                        Err(why) => {
                            t.inc("violated", 1);
                            let sig = format!("{}|{}", backend.name(), if failed_kind == 2 { "zeroed" } else { "plain" });
                            let body = job_json(code, &input, &job, alloc::FAIL).n("fail_at", k).n("failed_request_bytes", failed_size).b("failed_request_zeroed", failed_kind == 2).s("why", &why);
                            t.violation(&sig, body);
                        }
                    }
                }
            }
        }
    }
    // requests no allocator can satisfy (>= 2^60 cells away): the growth must end in the
    // allocation-failure abort or a panic (layout overflow), never return, never fault
    if args.shard == 0 || args.get("huge-only").is_some() {
        c17_huge(&mut t, args.get("huge-case").map(|s| s.to_string()));
    }
    t.write(&args.out, &[("wall_s".to_string(), format!("{:.2}", start.elapsed().as_secs_f64()))]);
    if t.violations.is_empty() {
        0
    } else {
        1
    }
}

fn c17_huge_scenario<C: hpbf::CellType>(pos: isize, pre: u32, op: u32) {
    let mut mem = hpbf::runtime::Memory::<C>::new();
    if pre == 1 {
        // an existing tape of 21 written cells
        for i in 0..21 {
            mem.write(0, C::from_u64(i + 1));
            mem.mov(1);
        }
        mem.mov(-21);
    }
    match op {
        0 => {
            mem.mov(pos);
            mem.write(0, C::from_u64(7));
        }
        1 => {
            // (an empty range needs nothing: only ask where pos + 1 exists)
            match pos.checked_add(1) {
                Some(end) => mem.make_accessible(pos, end),
                None => panic!("not applicable: empty range"),
            }
        }
        _ => {
            mem.write(pos, C::from_u64(7));
        }
    }
    // still here: use the cell so that a bogus tape is touched
    std::hint::black_box(mem.read(if op == 0 { 0 } else { pos }));
}

fn c17_huge(t: &mut Tally, only: Option<String>) {
    let mut positions: Vec<isize> = Vec::new();
    for k in [60u32, 61, 62] {
        for d in [-1isize, 0, 1] {
            positions.push((1isize << k) + d);
            positions.push(-((1isize << k) + d));
        }
    }
    positions.push(isize::MAX);
    positions.push(isize::MAX - 1);
    positions.push(isize::MIN + 1);
    for bits in [8u32, 16, 32, 64] {
        for &pos in &positions {
            for pre in [0u32, 1] {
                for op in [0u32, 1, 2] {
                    // plain allocator only: with the guard arena armed, the panic machinery's own
                    // small allocations after a failed giant request did not return in trials
                    for mode in [alloc::PASS] {
                        let name = format!("i{bits} pos={pos} pre={pre} op={op} alloc_mode={mode}");
                        if let Some(o) = &only {
                            if *o != name {
                                continue;
                            }
                        }
                        sys::shared().fault_seen = 0;
                        let end = sys::fork_run(30_000, || {
                            alloc::install_fault_handler();
                            alloc::set_mode(mode);
                            alloc::arm(true);
                            let r = std::panic::catch_unwind(|| match bits {
                                8 => c17_huge_scenario::<u8>(pos, pre, op),
                                16 => c17_huge_scenario::<u16>(pos, pre, op),
                                32 => c17_huge_scenario::<u32>(pos, pre, op),
                                _ => c17_huge_scenario::<u64>(pos, pre, op),
                            });
                            alloc::arm(false);
                            if r.is_ok() {
                                3
                            } else {
                                0
                            }
                        });
                        t.inc("evaluations", 1);
                        t.inc("huge.evaluations", 1);
                        t.distinct.insert(fnv64(name.as_bytes()));
                        let why = match end {
                            sys::ChildEnd::Exit(0) => {
                                t.inc("huge.ending.panic", 1);
                                None
                            }
                            sys::ChildEnd::Signal(6) => {
                                t.inc("huge.ending.abort", 1);
                                None
                            }
                            sys::ChildEnd::Exit(3) => Some("the operation returned normally although no allocator can provide the tape it needs".to_string()),
                            sys::ChildEnd::Exit(70) => Some(format!("memory fault at {:#x} after the impossible growth", sys::shared().fault_addr)),
                            sys::ChildEnd::Exit(c) if c == alloc::EXIT_BAD_LAYOUT => Some(format!("allocator contract broken: {}", alloc::bad_layout_text())),
                            sys::ChildEnd::Timeout => {
                                t.inc("inconclusive", 1);
                                t.inconclusive.push(format!("huge {name}: watchdog"));
                                None
                            }
                            other => Some(format!("unexpected end {other:?}")),
                        };
                        match why {
                            None => t.inc("held", 1),
                            Some(w) => {
                                t.inc("violated", 1);
                                t.violation(&format!("huge i{bits} op{op} pre{pre}"), Obj::new().s("kind", "huge_request").s("huge_case", &name).n("bits", bits as u64).s("why", &w));
                            }
                        }
                    }
                }
            }
        }
    }
}

// ---- C05: divergence / termination preservation ------------------------------------------------

/// Run one job in a child for at most `window_ms`; returns (returned_within_window, observation).
fn probe(code: &str, job: &Job, window_ms: u64) -> (bool, Obs) {
    use crate::engine::End;
    sys::reset_shared();
    let jobs = std::slice::from_ref(job);
    let o = RunOpts { ceiling_s: 120, rerun_on_timeout: false, validate_bc: false, cover_bc: false, ..Default::default() };
    let end = sys::fork_run(window_ms, || engine::child_body_pub(code, jobs, 0, 1, &o, 120));
    let e = match end {
        sys::ChildEnd::Exit(0) => End::Normal,
        sys::ChildEnd::Exit(70) => End::GuardFault { addr: sys::shared().fault_addr, in_arena: sys::shared().fault_seen == 1 },
        sys::ChildEnd::Exit(c) => End::ExitCode(c),
        sys::ChildEnd::Signal(s) => End::Crash(s),
        sys::ChildEnd::Timeout => End::Timeout,
    };
    let returned = e == End::Normal;
    (returned, engine::snapshot_pub(0, e))
}

pub fn c05(args: &Args) -> i32 {
    let prop = "C05";
    let corpus = load_corpus(&args.corpus);
    let mut t = Tally::new(prop, &args.replay_dir);
    let start = std::time::Instant::now();
    let ncorpus = corpus.items.len() as u64;
    // the first `count` generated cases get the full treatment; ten times as many further cases are
    // only used when they halt canonically (the window probes of diverging cases dominate the cost)
    let full = args.count + ncorpus;
    let total = full + 10 * args.count;
    let mut idx = args.shard;
    let base_window: u64 = args.get_u64("window-ms", 100);
    while idx < total {
        if start.elapsed().as_secs() >= args.secs {
            t.inc("stopped_by_time", 1);
            break;
        }
        let mut rng = Rng::derive(args.seed, fnv64(prop.as_bytes()), idx);
        let halting_only = idx >= full;
        let case = if idx < ncorpus {
            let it = &corpus.items[idx as usize];
            let bits = if let Some(&b) = corpus.bits.get(&it.0) { b } else if it.1.is_some() { 8 } else { *rng.pick(&[8u32, 8, 16, 32]) };
            Case { code: it.0.clone(), bits, family: Family::Corpus, fixed_input: it.1.clone() }
        } else if halting_only {
            if rng.chance(1, 2) {
                // loops that are entered at least once (no entry test in the generated code): where a
                // miscompiled back edge turns a finite loop into an infinite one
                let bits = pick_bits(&mut rng, false);
                Case { code: gen::structured_once_loops(&mut rng, bits <= 16, 150), bits, family: Family::Structured, fixed_input: None }
            } else {
                gen_case("C02", &mut rng, &corpus, args.thorough)
            }
        } else {
            gen_case(prop, &mut rng, &corpus, args.thorough)
        };
        idx += args.nshards;
        t.inc("programs", 1);
        t.inc(&format!("family.{}", case.family.name()), 1);
        let inputs = match &case.fixed_input {
            Some(i) => vec![i.clone()],
            None => gen::inputs(&mut rng, false),
        };
        let reads_input = case.code.contains(',');
        for (ii, input) in inputs.iter().enumerate() {
            if ii > 0 && !reads_input {
                break;
            }
            let t_spec = std::time::Instant::now();
            let sp = match spec::run(&case.code, input, spec_opts(case.bits, args.thorough, true)) {
                Some(s) => s,
                None => continue,
            };
            let spec_ms = t_spec.elapsed().as_secs_f64() * 1000.0;
            match sp.status {
                Status::Cap => {
                    t.inc("spec.neither_halts_nor_provably_cycles_within_cap", 1);
                    continue;
                }
                Status::Halted => {
                    // (c) terminating programs terminate everywhere, with the canonical events
                    t.inc("spec.halted", 1);
                    let mut jobs = Vec::new();
                    for b in [Backend::Inplace, Backend::IrInt, Backend::BcInt, Backend::Jit] {
                        for l in [0u32, 1, 2, 3] {
                            if b == Backend::Inplace && l != 0 {
                                continue;
                            }
                            jobs.push(Job { cfg: Cfg { backend: b, bits: case.bits, level: l, mode: Mode::Exec }, io: Io::plain(input) });
                        }
                    }
                    let o = RunOpts { ceiling_s: 5, ..Default::default() };
                    let obs = run_case(&case.code, &jobs, &o);
                    for (job, ob) in jobs.iter().zip(obs.iter()) {
                        t.inc("evaluations", 1);
                        t.inc("halting.evaluations", 1);
                        match judge(job, &sp, ob) {
                            Verdict::Held => t.inc("held", 1),
                            Verdict::Inconclusive(w) => {
                                t.inc("inconclusive", 1);
                                t.inconclusive.push(format!("{} :: {}", job.cfg.describe(), w));
                            }
                            Verdict::Violated(why) => {
                                t.inc("violated", 1);
                                let sig = format!("halting|{}|{}", job.cfg.backend.name(), why.split(':').next().unwrap_or(""));
                                let body = job_json(&case.code, input, job, 0).s("why", &why).s("canonical", "halts").s("expected", &spec::fmt_events(&sp.events, 40)).s("observed", &spec::fmt_events(&ob.events, 40));
                                t.violation(&sig, body);
                            }
                        }
                    }
                }
                Status::Cycle { .. } if halting_only => {
                    t.inc("cycle.skipped_in_halting_only_range", 1);
                }
                Status::Cycle { at_step, period, events_before, events_per_period } => {
                    t.inc("spec.cycle_proved", 1);
                    t.inc(if events_per_period == 0 { "cycle.silent" } else { "cycle.printing" }, 1);
                    if spec_ms > 30.0 {
                        t.inc("cycle.skipped_canonical_too_slow", 1);
                        continue;
                    }
                    let window = base_window.max((spec_ms * 100.0) as u64);
                    let h = fnv64(format!("{}|{}|{}", case.code, json::hex(input), case.bits).as_bytes());
                    t.distinct.insert(h);
                    if t.samples.len() < t.max_samples {
                        t.sample(
                            Obj::new()
                                .s("program", &case.code)
                                .s("input_hex", &json::hex(input))
                                .n("bits", case.bits)
                                .s("canonical", &format!("state after step {at_step} recurs {period} steps later; {events_before} events before the cycle, {events_per_period} per period"))
                                .s("canonical_events", &spec::fmt_events(&sp.events, 16))
                                .n("window_ms", window)
                                .done(),
                        );
                    }
                    for b in [Backend::Inplace, Backend::IrInt, Backend::BcInt, Backend::Jit] {
                        for l in [0u32, 1, 2, 3] {
                            if b == Backend::Inplace && l != 0 {
                                continue;
                            }
                            let job = Job { cfg: Cfg { backend: b, bits: case.bits, level: l, mode: Mode::Exec }, io: Io::plain(input) };
                            let (returned, mut ob) = probe(&case.code, &job, window);
                            t.inc("evaluations", 1);
                            t.inc("diverging.evaluations", 1);
                            t.inc(&format!("eval.{}", b.name()), 1);
                            let mut why: Option<String> = None;
                            if returned {
                                why = Some(format!(
                                    "returned (state {}) although the canonical run provably repeats its state after step {at_step} (period {period})",
                                    ob.state
                                ));
                            } else if ob.end != engine::End::Timeout {
                                why = Some(format!("ended with {:?} instead of running forever", ob.end));
                            } else {
                                // still running when the window closed: compare what it did so far
                                let mut check = |ob: &Obs| -> Result<(), (bool, String)> {
                                    let n = ob.events.len().min(sp.events.len());
                                    if ob.events[..n] != sp.events[..n] {
                                        return Err((true, format!("events before/inside the cycle differ: expected [{}], observed [{}]", spec::fmt_events(&sp.events, 12), spec::fmt_events(&ob.events, 12))));
                                    }
                                    if events_per_period == 0 {
                                        if ob.n_events > sp.total_events {
                                            return Err((true, format!("{} events observed, the canonical run produces only {} before looping silently", ob.n_events, sp.total_events)));
                                        }
                                        if ob.n_events < sp.total_events {
                                            return Err((false, format!("only {} of the {} canonical events were produced before the window closed", ob.n_events, sp.total_events)));
                                        }
                                    } else if ob.n_events <= events_before {
                                        return Err((false, format!("no event of the printing cycle was produced ({} so far, {} precede the cycle)", ob.n_events, events_before)));
                                    }
                                    Ok(())
                                };
                                match check(&ob) {
                                    Ok(()) => {}
                                    Err((true, w)) => why = Some(w),
                                    Err((false, w)) => {
                                        // missing events: only a verdict after an isolated re-run with a 10x window
                                        t.inc("isolated_reruns", 1);
                                        // generous: a starved child on a loaded machine must not look like a dropped output
                                        let (mut r2, mut ob2) = probe(&case.code, &job, (window * 10).max(3000));
                                        if !r2 && check(&ob2).is_err() {
                                            let (r3, ob3) = probe(&case.code, &job, 15_000);
                                            r2 = r3;
                                            ob2 = ob3;
                                        }
                                        if r2 {
                                            why = Some("returned on the re-run although the canonical run diverges".to_string());
                                        } else {
                                            match check(&ob2) {
                                                Ok(()) => {}
                                                Err((_, w2)) => why = Some(format!("{w2} (confirmed with a 10x window; first: {w})")),
                                            }
                                        }
                                        ob = ob2;
                                    }
                                }
                            }
                            match why {
                                None => {
                                    t.inc("held", 1);
                                    t.inc("events_compared", ob.n_events.min(EV_CAP as u64));
                                }
                                Some(w) => {
                                    t.inc("violated", 1);
                                    let sig = format!("diverging|{}|{}", b.name(), w.split(' ').next().unwrap_or(""));
                                    let body = job_json(&case.code, input, &job, 0).s("why", &w).s("canonical", "cycle").n("window_ms", window).s("expected", &spec::fmt_events(&sp.events, 40)).s("observed", &spec::fmt_events(&ob.events, 40));
                                    t.violation(&sig, body);
                                }
                            }
                        }
                    }
                }
            }
        }
    }
    t.write(&args.out, &[("wall_s".to_string(), format!("{:.2}", start.elapsed().as_secs_f64()))]);
    if t.violations.is_empty() {
        0
    } else {
        1
    }
}

// ---- C11: bytecode contract ---------------------------------------------------------------------

fn c11_gen(seed: u64, idx: u64, corpus: &Corpus, thorough: bool) -> (Case, Vec<u8>) {
    let mut rng = Rng::derive(seed, 0xC11, idx);
    let mut case = if (idx as usize) < corpus.items.len() {
        let it = &corpus.items[idx as usize];
        Case { code: it.0.clone(), bits: *rng.pick(&[8u32, 16, 32, 64]), family: Family::Corpus, fixed_input: it.1.clone() }
    } else {
        gen_case("C03", &mut rng, corpus, thorough)
    };
    // pressure x roaming: runtime calls with many live temporaries
    if case.family == Family::Pressure && rng.chance(1, 3) {
        let mv = if rng.chance(1, 2) { ">" } else { "<" };
        let n = rng.range(1, 40) as usize;
        case.code = case.code.replacen('[', &format!("[{}", mv.repeat(n)), 1);
        // keep balanced pointer: irrelevant for validity, the spec decides what it means
    }
    let inputs = match &case.fixed_input {
        Some(i) => vec![i.clone()],
        None => gen::inputs(&mut rng, false),
    };
    let input = inputs[(idx as usize) % inputs.len()].clone();
    (case, input)
}

fn c11_translate(code: &str, bits: u32, level: u32, nregs: usize, fuse: bool) -> Option<crate::bcview::BcView> {
    use hpbf::{bc, ir};
    fn go<C: hpbf::CellType>(code: &str, level: u32, nregs: usize, fuse: bool) -> Option<crate::bcview::BcView> {
        let p = ir::Program::<C>::parse(code).ok()?.optimize(level);
        Some(crate::bcview::view(&bc::CodeGen::translate(&p, nregs, fuse)))
    }
    match bits {
        8 => go::<u8>(code, level, nregs, fuse),
        16 => go::<u16>(code, level, nregs, fuse),
        32 => go::<u32>(code, level, nregs, fuse),
        _ => go::<u64>(code, level, nregs, fuse),
    }
}

fn c11_case(seed: u64, idx: u64, corpus: &Corpus, thorough: bool) -> Option<String> {
    let (case, input) = c11_gen(seed, idx, corpus, thorough);
    if spec::check_brackets(&case.code).is_err() {
        return None;
    }
    let sp = spec::run(&case.code, &input, spec_opts(case.bits, false, false));
    sys::shared().scratch[1] += 1;
    for level in [0u32, 1, 2, 3] {
        for (nregs, fuse) in [(2usize, true), (11usize, false)] {
            let v = match std::panic::catch_unwind(|| c11_translate(&case.code, case.bits, level, nregs, fuse)) {
                Ok(Some(v)) => v,
                Ok(None) => return Some(format!("L{level} regs{nregs}: parse failed on a balanced program")),
                Err(_) => return Some(format!("L{level} regs{nregs}: translate panicked")),
            };
            sys::shared().scratch[2] += 1;
            sys::shared().scratch[3] += v.insts.len() as u64;
            if v.temps > nregs {
                sys::shared().scratch[6] += 1;
            }
            let nbr = v.insts.iter().filter(|i| matches!(i, crate::bcview::I::BrZ(..) | crate::bcview::I::BrNZ(..))).count();
            sys::shared().scratch[7] += nbr as u64;
            let vs = crate::bcref::validate(&v, nregs);
            if let Some(f) = vs.first() {
                return Some(format!("L{level} regs{nregs}: static {}@{}: {}", f.rule, f.at, f.detail));
            }
            // dynamic shadow: adversarial-contract interpretation must still produce the canonical events
            if let Some(sp) = &sp {
                if sp.status == Status::Halted {
                    let r = crate::bcref::interp(&v, &input, nregs, true, 4_000_000, EV_CAP);
                    sys::shared().scratch[4] += 1;
                    sys::shared().scratch[5] += r.steps;
                    if let Some(tr) = r.trap {
                        return Some(format!("L{level} regs{nregs}: dynamic {tr}"));
                    }
                    if r.finished && (r.events != sp.events || r.total_events != sp.total_events) {
                        return Some(format!(
                            "L{level} regs{nregs}: dynamic events of the adversarial interpretation differ from the canonical run: expected [{}] observed [{}]",
                            spec::fmt_events(&sp.events, 10),
                            spec::fmt_events(&r.events, 10)
                        ));
                    }
                }
            }
        }
    }
    None
}

pub fn c11(args: &Args) -> i32 {
    let corpus = load_corpus(&args.corpus);
    let mut t = Tally::new("C11", &args.replay_dir);
    let start = std::time::Instant::now();
    let per = args.count;
    let from = args.shard * per;
    let to = from + per;
    let found = crate::props::batched(from, to, 400, 0, |i| c11_case(args.seed, i, &corpus, args.thorough));
    for i in from..to {
        let (case, input) = c11_gen(args.seed, i, &corpus, args.thorough);
        if case.code.contains('[') {
            t.distinct.insert(fnv64(format!("{}|{}", case.code, case.bits).as_bytes()));
        }
        if t.samples.len() < 4 && i % 97 == 5 {
            if let Some(v) = c11_translate(&case.code, case.bits, 2, 11, false) {
                let listing: Vec<String> = v.insts.iter().take(12).enumerate().map(|(k, ins)| format!("{k}:{ins:?} live={:04x}", v.live[k])).collect();
                t.sample(Obj::new().s("program", &case.code[..case.code.len().min(160)]).n("bits", case.bits).s("input_hex", &json::hex(&input)).n("temps", v.temps).s("window", &format!("[{}, {}]", v.min, v.max)).s("bytecode_head", &listing.join(" | ")).done());
            }
        }
    }
    let sh = sys::shared();
    t.inc("programs", sh.scratch[1]);
    t.inc("evaluations", sh.scratch[2]);
    t.inc("bytecode_programs_validated", sh.scratch[2]);
    t.inc("bytecode_instructions_validated", sh.scratch[3]);
    t.inc("adversarial_interpretations", sh.scratch[4]);
    t.inc("adversarial_steps", sh.scratch[5]);
    t.inc("bytecodes_with_spilled_temporaries", sh.scratch[6]);
    t.inc("branches_checked", sh.scratch[7]);
    for (i, why) in found {
        t.inc("violated", 1);
        let (case, input) = c11_gen(args.seed, i, &corpus, args.thorough);
        let rule = why.split(':').nth(1).unwrap_or("").trim().split('@').next().unwrap_or("").to_string();
        t.violation(&rule, Obj::new().s("kind", "bytecode").s("program", &case.code).n("bits", case.bits).s("input_hex", &json::hex(&input)).n("case_seed", args.seed).n("index", i).s("why", &why));
    }
    t.write(&args.out, &[("wall_s".to_string(), format!("{:.2}", start.elapsed().as_secs_f64()))]);
    if t.violations.is_empty() {
        0
    } else {
        1
    }
}

pub fn c11_replay(args: &Args) -> i32 {
    let code = args.get("code").unwrap_or("").to_string();
    let bits = args.get_u64("bits", 8) as u32;
    let input = json::unhex(args.get("input-hex").unwrap_or(""));
    let sp = spec::run(&code, &input, spec_opts(bits, false, false));
    let mut bad = 0;
    for level in [0u32, 1, 2, 3] {
        for (nregs, fuse) in [(2usize, true), (11usize, false)] {
            if let Some(v) = c11_translate(&code, bits, level, nregs, fuse) {
                for f in crate::bcref::validate(&v, nregs) {
                    println!("L{level} regs{nregs}: {:?}", f);
                    bad += 1;
                }
                if let Some(sp) = &sp {
                    if sp.status == Status::Halted {
                        let r = crate::bcref::interp(&v, &input, nregs, true, 4_000_000, EV_CAP);
                        if let Some(tr) = r.trap {
                            println!("L{level} regs{nregs}: {tr}");
                            bad += 1;
                        } else if r.finished && r.events != sp.events {
                            println!("L{level} regs{nregs}: adversarial events differ");
                            bad += 1;
                        }
                    }
                }
            }
        }
    }
    if bad > 0 {
        println!("VIOLATION property=C11 replay={}", args.get("replay-path").unwrap_or("-"));
        1
    } else {
        println!("held");
        0
    }
}

// ---- C12: parser / comment insensitivity --------------------------------------------------------

const COMMENTS: &[&str] = &["a", "Z", " ", "\n", "\t", "#", "0", "!", "é", "ß", "€", "中", "😀", "\u{1}", "\u{7f}", "\u{0}", "ä\u{301}", "/", "(", ")", "{", "}"];

fn c12_string(rng: &mut Rng, idx: u64) -> (String, &'static str) {
    // exhaustive small scope: every string over {[, ], +} up to length 7
    let mut n = idx;
    let mut len = 0u32;
    let mut block = 1u64;
    while len <= 7 {
        if n < block {
            let mut s = String::new();
            let mut x = n;
            for _ in 0..len {
                s.push(['[', ']', '+'][(x % 3) as usize]);
                x /= 3;
            }
            return (s, "exhaustive<=7");
        }
        n -= block;
        block *= 3;
        len += 1;
    }
    match rng.below(10) {
        0 => {
            // deep nesting, balanced
            let d = rng.range(20, 300) as usize;
            let mut s = String::from("+");
            s.push_str(&"[".repeat(d));
            s.push_str(*rng.pick(&["-", "", ">+<-", "."]));
            s.push_str(&"]".repeat(d));
            s.push('.');
            (s, "deep_balanced")
        }
        1 => {
            // deep nesting, unbalanced either way
            let d = rng.range(5, 300) as usize;
            let e = rng.range(0, 300) as usize;
            (format!("{}{}{}", "[".repeat(d), "+", "]".repeat(e)), "deep_unbalanced")
        }
        2 | 3 => {
            // valid program with one bracket flipped / removed / added
            let gl = *rng.pick(&[8usize, 20, 60]);
            let mut s: Vec<char> = gen::grammar(rng, gl).chars().collect();
            if !s.is_empty() {
                let i = rng.below(s.len() as u64) as usize;
                match rng.below(3) {
                    0 => s.insert(i, *rng.pick(&['[', ']'])),
                    1 => {
                        s.remove(i);
                    }
                    _ => s[i] = *rng.pick(&['[', ']', '+']),
                }
            }
            (s.into_iter().collect(), "near_valid")
        }
        4 | 5 => {
            let gl = *rng.pick(&[6usize, 16, 40, 100]);
            (gen::grammar(rng, gl), "valid_grammar")
        }
        6 => (gen::structured(rng, true, 80), "valid_structured"),
        _ => {
            // bracket soup with unicode
            let n = rng.range(0, 24);
            let mut s = String::new();
            for _ in 0..n {
                match rng.below(10) {
                    0..=2 => s.push('['),
                    3..=5 => s.push(']'),
                    6 => s.push('+'),
                    7 => s.push('.'),
                    8 => s.push(','),
                    _ => s.push_str(*rng.pick(COMMENTS)),
                }
            }
            (s, "bracket_soup")
        }
    }
}

/// Insert comment characters; returns the commented string and the map old char index -> new char index.
fn c12_comment(rng: &mut Rng, s: &str) -> (String, Vec<usize>) {
    let mut out = String::new();
    let mut map = Vec::new();
    let mut n = 0usize;
    let dens = *rng.pick(&[1u64, 2, 4]);
    for c in s.chars() {
        while rng.chance(1, dens + 1) {
            let k = *rng.pick(COMMENTS);
            out.push_str(k);
            n += k.chars().count();
        }
        map.push(n);
        out.push(c);
        n += 1;
    }
    if rng.chance(1, 2) {
        out.push_str(*rng.pick(COMMENTS));
    }
    (out, map)
}

pub fn c12(args: &Args) -> i32 {
    let mut t = Tally::new("C12", &args.replay_dir);
    let start = std::time::Instant::now();
    let total = args.count + 3280;
    let mut idx = args.shard;
    while idx < total {
        if start.elapsed().as_secs() >= args.secs {
            t.inc("stopped_by_time", 1);
            break;
        }
        let mut rng = Rng::derive(args.seed, 0xC12, idx);
        let (s, kind) = c12_string(&mut rng, idx);
        idx += args.nshards;
        let (sc, map) = c12_comment(&mut rng, &s);
        t.inc("strings", 1);
        t.inc(&format!("kind.{kind}"), 1);
        let want = spec::check_brackets(&s);
        let want_c = spec::check_brackets(&sc);
        // self-consistency of the reference under comment insertion
        let mapped = match want {
            Ok(()) => Ok(()),
            Err((k, p)) => Err((k, map[p])),
        };
        if mapped != want_c {
            t.inc("reference_inconsistent", 1);
            t.violation("reference", Obj::new().s("kind", "parser").s("program", &s).s("commented", &sc).s("why", "harness reference matcher is not comment-insensitive (harness bug)"));
            continue;
        }
        match want {
            Ok(()) => t.inc("balanced", 1),
            Err((true, _)) => t.inc("unbalanced.not_opened", 1),
            Err((false, _)) => t.inc("unbalanced.not_closed", 1),
        }
        let bits = *rng.pick(&[8u32, 16, 32, 64]);
        let input: Vec<u8> = (0..4).map(|_| rng.range(0, 5) as u8).collect();
        let sp = if want.is_ok() { spec::run(&s, &input, spec_opts(bits, false, true)) } else { None };
        let halted = matches!(&sp, Some(x) if x.status == Status::Halted);
        let level = *rng.pick(&[0u32, 1, 2, 3]);
        let bits2 = *rng.pick(&[8u32, 16, 32, 64]);
        for (variant, text) in [("plain", &s), ("commented", &sc)] {
            let mut jobs = Vec::new();
            for b in [Backend::IrInt, Backend::BcInt, Backend::Jit, Backend::Inplace] {
                let mode = if halted { Mode::Exec } else { Mode::Limited(2000) };
                jobs.push(Job { cfg: Cfg { backend: b, bits, level, mode }, io: Io::plain(&input) });
                if b != Backend::Inplace && want.is_err() {
                    // widths must agree on the verdict
                    jobs.push(Job { cfg: Cfg { backend: b, bits: bits2, level: (level + 1) % 4, mode }, io: Io::plain(&input) });
                }
            }
            let o = RunOpts { ceiling_s: 10, validate_bc: false, cover_bc: false, ..Default::default() };
            let obs = run_case(text, &jobs, &o);
            for (job, ob) in jobs.iter().zip(obs.iter()) {
                t.inc("evaluations", 1);
                let parsing = job.cfg.backend != Backend::Inplace;
                let mut why: Option<String> = None;
                match (&want, parsing) {
                    (Ok(()), _) => {
                        if let Some(sp) = &sp {
                            if sp.status != Status::Cap && job.cfg.bits == bits {
                                match judge(job, sp, ob) {
                                    Verdict::Held => {}
                                    Verdict::Inconclusive(w) => {
                                        t.inc("inconclusive", 1);
                                        t.inconclusive.push(w);
                                    }
                                    Verdict::Violated(w) => why = Some(format!("{variant}: {w}")),
                                }
                            } else if ob.end != engine::End::Normal || ob.state == sys::ST_PANICKED || ob.state == sys::ST_CREATE_ERR {
                                why = Some(format!("{variant}: balanced program rejected or crashed (end {:?}, state {})", ob.end, ob.state));
                            }
                        }
                    }
                    (Err((not_opened, pos)), true) => {
                        let (wk, wp) = (if *not_opened { 2 } else { 1 }, if variant == "plain" { *pos } else { map[*pos] });
                        if ob.end != engine::End::Normal {
                            why = Some(format!("{variant}: parsing an unbalanced string ended with {:?}", ob.end));
                        } else if ob.state != sys::ST_CREATE_ERR {
                            why = Some(format!("{variant}: unbalanced string accepted (state {})", ob.state));
                        } else if ob.aux[6] != wk || ob.aux[7] != wp as u64 {
                            why = Some(format!(
                                "{variant}: error kind/position ({}, {}) differs from the reference ({}, {}) [1 = loop not closed, 2 = loop not opened]",
                                ob.aux[6], ob.aux[7], wk, wp
                            ));
                        }
                    }
                    (Err(_), false) => {
                        // in-place interpreter: only "does not panic or crash"
                        if ob.end != engine::End::Normal || ob.state == sys::ST_PANICKED {
                            why = Some(format!("{variant}: in-place interpreter crashed on an unbalanced string (end {:?}, state {})", ob.end, ob.state));
                        }
                    }
                }
                match why {
                    None => t.inc("held", 1),
                    Some(w) => {
                        t.inc("violated", 1);
                        let sig = format!("{}|{}", job.cfg.backend.name(), w.split(':').nth(1).unwrap_or("").trim().chars().take(30).collect::<String>());
                        let body = job_json(text, &input, job, 0).s("why", &w).s("kind", "parser").s("plain", &s);
                        t.violation(&sig, body);
                    }
                }
            }
        }
        if s.chars().filter(|&c| c == '[' || c == ']').count() >= 2 {
            t.distinct.insert(fnv64(s.as_bytes()));
        }
        if t.samples.len() < t.max_samples && idx % 211 < args.nshards && kind != "exhaustive<=7" {
            t.sample(Obj::new().s("string", &s[..s.len().min(80)]).s("commented", &sc.chars().take(100).collect::<String>()).s("reference", &format!("{:?}", want)).s("kind", kind).done());
        }
    }
    t.write(&args.out, &[("wall_s".to_string(), format!("{:.2}", start.elapsed().as_secs_f64()))]);
    if t.violations.is_empty() {
        0
    } else {
        1
    }
}

// ---- coverage-guided search for JIT selector cases (generator 6 of the design) ------------------

fn jit_keys(code: &str, bits: u32, level: u32, bc: bool) -> Option<Vec<String>> {
    let v = std::panic::catch_unwind(|| if bc { c11_translate(code, bits, level, 2, true) } else { c11_translate(code, bits, level, 11, false) }).ok()??;
    let mut keys: Vec<String> = (0..v.insts.len()).map(|i| if bc { crate::bcref::bcint_key(&v, i) } else { crate::bcref::selector_key(&v, i) }).collect();
    keys.sort();
    keys.dedup();
    Some(keys)
}

/// Many values alive at once: a long straight-line block (optionally inside a loop) that reads a set
/// of cells repeatedly, forming sums and products, before anything is overwritten.
pub fn gen_wide(rng: &mut Rng) -> String {
    let n = rng.range(8, 20);
    let mut b = gen::Builder::new(rng, n + 6, false, 6000);
    for c in 0..n {
        if b.rng.chance(1, 2) {
            b.input(c);
        } else {
            let v = b.rng.range(1, 4);
            b.add(c, v);
        }
    }
    let in_loop = b.rng.chance(1, 2);
    let ctr = n + 5;
    if in_loop {
        b.add(ctr, 2);
        b.goto(ctr);
        b.out.push('[');
    }
    let m = b.rng.range(4, 16);
    for k in 0..m {
        let dst = n + (k % 4);
        let t = n + 4;
        let i = b.rng.range(0, n - 1);
        let j = b.rng.range(0, n - 1);
        match b.rng.below(3) {
            0 => {
                // dst += x_i * x_j (nested drains restore x_i, x_j)
                b.goto(i);
                b.out.push('[');
                b.add(i, -1);
                b.add(t, 1);
                if i != j {
                    // dst += x_j ; via second temp: use dst's neighbour as temp is unsafe: use ctr-1 cell n+4? keep simple
                    b.goto(j);
                    b.out.push('[');
                    b.add(j, -1);
                    b.add(dst, 1);
                    b.add(n + 4 + 0, 0);
                    b.goto(j);
                    b.out.push(']');
                } else {
                    b.add(dst, 2);
                }
                b.goto(i);
                b.out.push(']');
                b.drain(t, &[(i, 1)], 1);
            }
            1 => {
                let kk = b.small_const();
                b.add_mul(dst, i, kk, t);
            }
            _ => {
                let kk = b.small_const();
                b.add_mul(i, j, kk, t);
            }
        }
    }
    if in_loop {
        b.add(ctr, -1);
        b.goto(ctr);
        b.out.push(']');
    }
    for c in 0..n + 4 {
        b.output(c);
    }
    b.out
}

pub fn hunt(args: &Args) -> i32 {
    let corpus = load_corpus(&args.corpus);
    let start = std::time::Instant::now();
    let mut seen: std::collections::HashMap<String, (String, u32, u32)> = std::collections::HashMap::new();
    let mut pool: Vec<String> = Vec::new();
    let mut rng = Rng::derive(args.seed, 0x6a17, args.shard);
    let mut tried = 0u64;
    while start.elapsed().as_secs() < args.secs {
        let code = match rng.below(10) {
            0..=2 => gen::pressure(&mut rng, false),
            3 => {
                if rng.chance(1, 2) {
                    gen::pressure_products(&mut rng)
                } else {
                    gen::cyclic_products(&mut rng)
                }
            }
            4..=5 => gen_wide(&mut rng),
            6 => gen::structured(&mut rng, false, 600),
            _ => {
                if pool.is_empty() {
                    gen_wide(&mut rng)
                } else {
                    let base = rng.pick(&pool).clone();
                    gen::mutate(&mut rng, &base)
                }
            }
        };
        if code.len() > 4000 || spec::check_brackets(&code).is_err() {
            continue;
        }
        tried += 1;
        let bits = *rng.pick(&[8u32, 16, 32, 64, 64]);
        let level = *rng.pick(&[1u32, 2, 3]);
        if let Some(keys) = jit_keys(&code, bits, level, args.get("target") == Some("bc")) {
            let mut novel = false;
            for k in keys {
                match seen.get(&k) {
                    Some((c, _, _)) if c.len() <= code.len() => {}
                    Some(_) => {
                        seen.insert(k, (code.clone(), bits, level));
                    }
                    None => {
                        novel = true;
                        seen.insert(k, (code.clone(), bits, level));
                    }
                }
            }
            if novel {
                pool.push(code);
                if pool.len() > 400 {
                    pool.remove(0);
                }
            }
        }
    }
    let _ = &corpus;
    let mut out = String::new();
    let mut ks: Vec<_> = seen.into_iter().collect();
    ks.sort();
    for (k, (c, bits, level)) in ks {
        out.push_str(&format!("{}\t{}\t{}\t{}\n", k, bits, level, c));
    }
    std::fs::write(&args.out, out).unwrap();
    eprintln!("hunt: tried {tried} programs");
    0
}

// ---- in-process differential run (no fork): the Miri stage of C02 / C04 / C06 -------------------

pub fn mdiff(args: &Args) -> i32 {
    let prop = args.get("prop").unwrap_or("C04").to_string();
    let corpus = load_corpus(&args.corpus);
    let mut t = Tally::new(&prop, &args.replay_dir);
    let start = std::time::Instant::now();
    let backends: Vec<Backend> = match prop.as_str() {
        "C04" => vec![Backend::Inplace],
        "C02" => vec![Backend::BcInt],
        _ => vec![Backend::Inplace, Backend::IrInt, Backend::BcInt],
    };
    let mut done = 0u64;
    let mut idx = args.shard;
    while done < args.count && idx < 1_000_000 {
        let mut rng = Rng::derive(args.seed, fnv64(prop.as_bytes()) ^ 0x3171, idx);
        idx += args.nshards;
        // small programs only: the interpreter under the UB checker is four orders of magnitude slower
        let case = if idx % 3 == 0 && !corpus.items.is_empty() {
            let it = rng.pick(&corpus.items).clone();
            if it.0.len() > 200 {
                continue;
            }
            Case { code: it.0, bits: *rng.pick(&[8u32, 16, 32, 64]), family: Family::Corpus, fixed_input: it.1 }
        } else {
            let bits = *rng.pick(&[8u32, 16, 32, 64]);
            let code = match rng.below(4) {
                0 => gen::grammar(&mut rng, 30),
                1 => gen::scan(&mut rng),
                2 => gen::roaming(&mut rng, 700),
                _ => gen::structured(&mut rng, bits <= 16, 40),
            };
            Case { code, bits, family: Family::Structured, fixed_input: None }
        };
        let input: Vec<u8> = case.fixed_input.clone().unwrap_or_else(|| vec![2, 1, 3]);
        let sp = match spec::run(&case.code, &input, SpecOpts { bits: case.bits, step_cap: 3000, event_cap: EV_CAP, detect_cycles: false }) {
            Some(s) if s.status == Status::Halted => s,
            _ => continue,
        };
        done += 1;
        t.inc("programs", 1);
        for &b in &backends {
            for level in [0u32, 2] {
                if b == Backend::Inplace && level != 0 {
                    continue;
                }
                let job = Job { cfg: Cfg { backend: b, bits: case.bits, level, mode: Mode::Limited(10_000_000) }, io: Io::plain(&input) };
                let slot = &mut sys::shared().slots[0];
                slot.state = 0;
                slot.flags = 0;
                slot.n_events = 0;
                slot.ev_hash = 0xcbf29ce484222325;
                slot.aux = [0; 8];
                crate::run::run_cfg(&job.cfg, &case.code, &job.io, slot, &mut |_| {});
                let ob = engine::snapshot_pub(0, engine::End::Normal);
                t.inc("evaluations", 1);
                t.inc("canonical_steps", sp.steps);
                match judge(&job, &sp, &ob) {
                    Verdict::Held => t.inc("held", 1),
                    Verdict::Inconclusive(w) => t.inconclusive.push(w),
                    Verdict::Violated(why) => {
                        t.inc("violated", 1);
                        t.violation(&format!("{}|mdiff", b.name()), job_json(&case.code, &input, &job, 0).s("why", &why));
                    }
                }
            }
        }
        if sp.loop_iters >= 1 && sp.total_events >= 1 {
            t.distinct.insert(fnv64(format!("{}|{}", case.code, case.bits).as_bytes()));
        }
    }
    t.write(&args.out, &[("wall_s".to_string(), format!("{:.2}", start.elapsed().as_secs_f64()))]);
    if t.violations.is_empty() {
        0
    } else {
        1
    }
}
