//! In-process monitors for the pure / data-structure properties: C09 (tape API), C14 (cell
//! arithmetic), C15 (expression algebra), C18 (small vector). They also run under Miri.

use std::collections::{HashMap, HashSet};

use hpbf::ir::Expr;
use hpbf::CellType;

use crate::engine::Tally;
use crate::json::Obj;
use crate::rng::Rng;
use crate::Args;

fn mask(bits: u32) -> u128 {
    (1u128 << bits) - 1
}

// =================================================================================================
// C14
// =================================================================================================

fn pow_ref(b: u128, mut e: u128, bits: u32) -> u128 {
    // independent square-and-multiply in u128 (values < 2^64 so products fit)
    let m = mask(bits);
    let mut base = b & m;
    let mut r: u128 = 1 & m;
    while e != 0 {
        if e & 1 == 1 {
            r = (r * base) & m;
        }
        base = (base * base) & m;
        e >>= 1;
    }
    r
}

fn check_div<C: CellType>(n: C, d: C) -> Option<String> {
    let bits = C::BITS;
    let m = mask(bits);
    let (nu, du) = (n.into_u64() as u128, d.into_u64() as u128);
    let tz = |x: u128| if x == 0 { bits } else { x.trailing_zeros() };
    let solvable = nu == 0 || tz(du) <= tz(nu);
    match n.wrapping_div(d) {
        Some(x) => {
            let xu = x.into_u64() as u128;
            if (xu * du) & m != nu {
                return Some(format!("wrapping_div({nu},{du}) = {xu} but {xu}*{du} != {nu} (mod 2^{bits})"));
            }
            if !solvable {
                return Some(format!("wrapping_div({nu},{du}) = Some although unsolvable"));
            }
            // all solutions differ by multiples of 2^(bits - tz(d)); the smallest is below that
            let period_log = bits - tz(du).min(bits);
            if nu != 0 && period_log < 128 && xu >= (1u128 << period_log) {
                return Some(format!("wrapping_div({nu},{du}) = {xu} is not the smallest solution (period 2^{period_log})"));
            }
            if nu == 0 && xu != 0 {
                return Some(format!("wrapping_div(0,{du}) = {xu}, smallest solution is 0"));
            }
            None
        }
        None => {
            if solvable {
                Some(format!("wrapping_div({nu},{du}) = None although a solution exists"))
            } else {
                None
            }
        }
    }
}

fn check_inv<C: CellType>(x: C) -> Option<String> {
    let bits = C::BITS;
    let xu = x.into_u64() as u128;
    match x.wrapping_inv() {
        Some(i) => {
            if xu & 1 == 0 {
                return Some(format!("wrapping_inv({xu}) defined for an even value"));
            }
            if (xu * i.into_u64() as u128) & mask(bits) != 1 {
                return Some(format!("wrapping_inv({xu}) = {} does not multiply back to 1", i.into_u64()));
            }
            None
        }
        None => {
            if xu & 1 == 1 {
                Some(format!("wrapping_inv({xu}) undefined for an odd value"))
            } else {
                None
            }
        }
    }
}

fn check_pow<C: CellType>(b: C, e: C) -> Option<String> {
    let bits = C::BITS;
    let got = b.wrapping_pow(e).into_u64() as u128;
    let (bu, eu) = (b.into_u64() as u128, e.into_u64() as u128);
    let want = if eu <= 64 {
        let mut r = 1u128 & mask(bits);
        for _ in 0..eu {
            r = (r * bu) & mask(bits);
        }
        r
    } else {
        pow_ref(bu, eu, bits)
    };
    if got != want {
        Some(format!("wrapping_pow({bu},{eu}) = {got}, expected {want} at {bits} bits"))
    } else {
        None
    }
}

fn check_misc<C: CellType>(x: C, y: C, sh: u32) -> Option<String> {
    let bits = C::BITS;
    let m = mask(bits);
    let (xu, yu) = (x.into_u64() as u128, y.into_u64() as u128);
    if xu > m {
        return Some(format!("into_u64({xu}) exceeds the width"));
    }
    if C::from_u64(x.into_u64()) != x {
        return Some(format!("from_u64(into_u64({xu})) != {xu}"));
    }
    // sign extension
    let si = x.into_i64();
    let want_si = if bits == 64 { xu as u64 as i64 } else if xu >> (bits - 1) & 1 == 1 { (xu as i128 - (1i128 << bits)) as i64 } else { xu as i64 };
    if si != want_si {
        return Some(format!("into_i64({xu}) = {si}, expected {want_si}"));
    }
    if C::from_u64(si as u64) != x {
        return Some(format!("from_u64(into_i64({xu}) as u64) != {xu} (truncation round trip)"));
    }
    if (x.wrapping_add(y).into_u64() as u128) != (xu + yu) & m {
        return Some(format!("wrapping_add({xu},{yu})"));
    }
    if (x.wrapping_mul(y).into_u64() as u128) != (xu * yu) & m {
        return Some(format!("wrapping_mul({xu},{yu})"));
    }
    if x.wrapping_add(x.wrapping_neg()) != C::ZERO {
        return Some(format!("wrapping_neg({xu})"));
    }
    if (x.bitand(y).into_u64() as u128) != xu & yu {
        return Some(format!("bitand({xu},{yu})"));
    }
    if x.is_odd() != (xu & 1 == 1) {
        return Some(format!("is_odd({xu})"));
    }
    let want_tz = if xu == 0 { bits } else { xu.trailing_zeros() };
    if x.trailing_zeros() != want_tz {
        return Some(format!("trailing_zeros({xu}) = {}", x.trailing_zeros()));
    }
    let want_shl = if sh >= bits { 0 } else { (xu << sh) & m };
    if (x.wrapping_shl(sh).into_u64() as u128) != want_shl {
        return Some(format!("wrapping_shl({xu},{sh}) = {}", x.wrapping_shl(sh).into_u64()));
    }
    let want_shr = if sh >= bits { 0 } else { xu >> sh };
    if (x.wrapping_shr(sh).into_u64() as u128) != want_shr {
        return Some(format!("wrapping_shr({xu},{sh}) = {}", x.wrapping_shr(sh).into_u64()));
    }
    // byte / i16 conversions
    let b = (xu & 0xff) as u8;
    if x.into_u8() != b {
        return Some(format!("into_u8({xu})"));
    }
    if C::from_u8(b).into_u64() != b as u64 {
        return Some(format!("from_u8({b})"));
    }
    let v16 = (yu & 0xffff) as u16 as i16;
    let f = C::from_i16(v16);
    if (f.into_u64() as u128) != (v16 as i64 as u64 as u128) & m {
        return Some(format!("from_i16({v16}) = {}", f.into_u64()));
    }
    match x.try_into_i16() {
        Some(v) => {
            if v as i64 != si {
                return Some(format!("try_into_i16({xu}) = {v} but the signed value is {si}"));
            }
            if C::from_i16(v) != x {
                return Some(format!("from_i16(try_into_i16({xu})) does not round-trip"));
            }
        }
        None => {
            if si >= i16::MIN as i64 && si <= i16::MAX as i64 {
                return Some(format!("try_into_i16({xu}) = None although {si} fits"));
            }
        }
    }
    if C::ZERO.into_u64() != 0 || C::ONE.into_u64() != 1 || (C::NEG_ONE.into_u64() as u128) != m {
        return Some("constants".into());
    }
    None
}

fn interesting<C: CellType>(rng: &mut Rng) -> C {
    let bits = C::BITS;
    let m = if bits == 64 { u64::MAX } else { (1u64 << bits) - 1 };
    let v = match rng.below(10) {
        0 => 0,
        1 => 1,
        2 => m,
        3 => 1u64 << rng.below(bits as u64),
        4 => (1u64 << rng.below(bits as u64)).wrapping_sub(1),
        5 => (1u64 << rng.below(bits as u64)).wrapping_add(1),
        6 => (rng.next() | 1) << rng.below(bits as u64),
        7 => rng.below(300),
        8 => m.wrapping_sub(rng.below(300)),
        _ => rng.next(),
    };
    C::from_u64(v & m)
}

fn c14_width<C: CellType>(args: &Args, t: &mut Tally, rng: &mut Rng, exhaustive_pairs: bool, random_pairs: u64) {
    let bits = C::BITS;
    let mut fail = |t: &mut Tally, what: String| {
        t.inc("violated", 1);
        let sig = what.split('(').next().unwrap_or("").to_string();
        t.violation(&format!("i{bits}:{sig}"), Obj::new().n("bits", bits).s("why", &what).s("kind", "arith"));
    };
    let m: u64 = if bits == 64 { u64::MAX } else { (1u64 << bits) - 1 };
    if exhaustive_pairs {
        // this shard's slice of the divisor space
        let total = m + 1;
        let mut d = args.shard;
        while d < total {
            let dc = C::from_u64(d);
            if let Some(w) = check_inv(dc) {
                fail(t, w);
            }
            for n in 0..total {
                let nc = C::from_u64(n);
                if let Some(w) = check_div(nc, dc) {
                    fail(t, w);
                }
                t.inc("evaluations", 1);
            }
            t.inc(&format!("i{bits}.divisors_exhausted"), 1);
            d += args.nshards;
        }
        t.inc(&format!("i{bits}.pairs_exhaustive"), 1);
    }
    if bits == 8 && args.shard == 0 && !cfg!(miri) {
        for b in 0..=255u64 {
            for e in 0..=255u64 {
                if let Some(w) = check_pow(C::from_u64(b), C::from_u64(e)) {
                    fail(t, w);
                }
                t.inc("evaluations", 1);
            }
            for sh in 0..=9 {
                for y in [0u64, 1, 127, 128, 255, b] {
                    if let Some(w) = check_misc(C::from_u64(b), C::from_u64(y), sh) {
                        fail(t, w);
                    }
                }
            }
        }
        t.inc("i8.pow_exhaustive", 1);
    }
    // structured grid: every (tz(n), tz(d)) pair (under Miri: a diagonal sample)
    for tn in 0..=bits {
        for td in 0..=bits {
            if cfg!(miri) && (tn + 3 * td + args.shard as u32) % 37 != 0 {
                continue;
            }
            for _ in 0..(if cfg!(miri) { 1 } else { 4 }) {
                let on = rng.next() | 1;
                let od = rng.next() | 1;
                let n = if tn == bits { 0 } else { (on << tn) & m };
                let d = if td == bits { 0 } else { (od << td) & m };
                if let Some(w) = check_div(C::from_u64(n), C::from_u64(d)) {
                    fail(t, w);
                }
                t.inc("evaluations", 1);
                t.distinct.insert(crate::rng::fnv64(format!("{bits}:{n}:{d}").as_bytes()));
            }
        }
    }
    t.inc(&format!("i{bits}.tz_grid_cells"), ((bits + 1) * (bits + 1)) as u64);
    for i in 0..random_pairs {
        let n: C = interesting(rng);
        let d: C = interesting(rng);
        if let Some(w) = check_div(n, d) {
            fail(t, w);
        }
        if let Some(w) = check_inv(d) {
            fail(t, w);
        }
        if let Some(w) = check_pow(n, d) {
            fail(t, w);
        }
        let small_e = C::from_u64(rng.below(70));
        if let Some(w) = check_pow(n, small_e) {
            fail(t, w);
        }
        if let Some(w) = check_misc(n, d, rng.below(bits as u64 + 6) as u32) {
            fail(t, w);
        }
        t.inc("evaluations", 5);
        if i < 2000 {
            t.distinct.insert(crate::rng::fnv64(format!("{bits}:{}:{}", n.into_u64(), d.into_u64()).as_bytes()));
        }
        if t.samples.len() < 6 && i % 1000 == 7 {
            t.sample(
                Obj::new()
                    .n("bits", bits)
                    .n("n", n.into_u64())
                    .n("d", d.into_u64())
                    .s("wrapping_div", &format!("{:?}", n.wrapping_div(d).map(|x| x.into_u64())))
                    .s("wrapping_inv_d", &format!("{:?}", d.wrapping_inv().map(|x| x.into_u64())))
                    .n("wrapping_pow", n.wrapping_pow(d).into_u64())
                    .done(),
            );
        }
    }
}

pub fn c14(args: &Args) -> i32 {
    let mut t = Tally::new("C14", &args.replay_dir);
    let start = std::time::Instant::now();
    let mut rng = Rng::derive(args.seed, 14, args.shard);
    let n = args.count;
    let small = cfg!(miri);
    c14_width::<u8>(args, &mut t, &mut rng, !small, n);
    // 16 bit: exhaustive over all pairs in thorough mode; all divisors x 256 numerators in quick
    if args.thorough && !small {
        c14_width::<u16>(args, &mut t, &mut rng, true, n);
    } else {
        c14_width::<u16>(args, &mut t, &mut rng, false, n);
        if !small {
            let mut d = args.shard;
            while d < 65536 {
                for _ in 0..256 {
                    let nn = rng.below(65536);
                    if let Some(w) = check_div(nn as u16, d as u16) {
                        t.inc("violated", 1);
                        t.violation("i16:wrapping_div", Obj::new().n("bits", 16).s("why", &w).s("kind", "arith"));
                    }
                    t.inc("evaluations", 1);
                }
                d += args.nshards;
            }
            t.inc("i16.all_divisors_x256", 1);
        }
    }
    c14_width::<u32>(args, &mut t, &mut rng, false, n);
    c14_width::<u64>(args, &mut t, &mut rng, false, n);
    t.write(&args.out, &[("wall_s".to_string(), format!("{:.2}", start.elapsed().as_secs_f64()))]);
    if t.violations.is_empty() {
        0
    } else {
        1
    }
}

// =================================================================================================
// C15
// =================================================================================================

fn mk_map<C: CellType, M, B>(items: Vec<(isize, Expr<C>)>) -> M
where
    M: Default + std::ops::DerefMut<Target = std::collections::HashMap<isize, Expr<C>, B>>,
    B: std::hash::BuildHasher,
{
    let mut m = M::default();
    for (k, v) in items {
        m.insert(k, v);
    }
    m
}

struct ExprGen<'a> {
    rng: &'a mut Rng,
    nvars: i64,
    bits: u32,
}

impl<'a> ExprGen<'a> {
    fn coef<C: CellType>(&mut self) -> C {
        let bits = self.bits;
        let half = 1u64 << (bits - 1);
        let m = if bits == 64 { u64::MAX } else { (1u64 << bits) - 1 };
        let v = match self.rng.below(12) {
            0 | 1 => 1,
            2 => m,
            3 => half,
            4 => half + 1,
            5 => half - 1,
            6 => 2,
            7 => m - 1,
            8 => self.rng.below(8),
            9 => half | self.rng.below(4),
            _ => self.rng.next(),
        };
        C::from_u64(v & m)
    }
    fn var(&mut self) -> isize {
        self.rng.range(-(self.nvars / 2), self.nvars / 2) as isize
    }
    fn gen<C: CellType>(&mut self, depth: u32) -> Expr<C> {
        if depth == 0 || self.rng.chance(1, 4) {
            return match self.rng.below(3) {
                0 => Expr::val(self.coef::<C>()),
                _ => {
                    let v = Expr::var(self.var());
                    if self.rng.chance(1, 2) {
                        v
                    } else {
                        v.mul(Expr::val(self.coef::<C>()))
                    }
                }
            };
        }
        match self.rng.below(7) {
            0 | 1 => {
                let a = self.gen::<C>(depth - 1);
                let b = self.gen::<C>(depth - 1);
                a.add(b)
            }
            2 | 3 => {
                let a = self.gen::<C>(depth - 1);
                let b = self.gen::<C>(depth - 1);
                if a.grouped_vars().count() * b.grouped_vars().count() > 64 {
                    a.add(b)
                } else {
                    a.mul(b)
                }
            }
            4 => self.gen::<C>(depth - 1).neg(),
            5 => self.gen::<C>(depth - 1).normalize(),
            _ => {
                let a = self.gen::<C>(depth - 1);
                match a.half() {
                    Some(h) => h,
                    None => a,
                }
            }
        }
    }
}

fn assignments<C: CellType>(rng: &mut Rng, nvars: i64) -> Vec<HashMap<isize, C>> {
    let bits = C::BITS;
    let half = 1u64 << (bits - 1);
    let m = if bits == 64 { u64::MAX } else { (1u64 << bits) - 1 };
    let vars: Vec<isize> = (-(nvars / 2)..=(nvars / 2)).map(|v| v as isize).collect();
    let mut out = Vec::new();
    let fixed: [&dyn Fn(&mut Rng) -> u64; 8] = [
        &|_| 0,
        &|_| 1,
        &|_| half,
        &|r| half + (r.below(3) as u64) - 1,
        &|r| r.next() | 1,
        &|r| r.next() & !1,
        &|r| r.next(),
        &|r| r.below(5),
    ];
    for f in fixed.iter() {
        let mut a = HashMap::new();
        for &v in &vars {
            a.insert(v, C::from_u64(f(rng) & m));
        }
        out.push(a);
    }
    out
}

fn ev<C: CellType>(e: &Expr<C>, a: &HashMap<isize, C>) -> C {
    e.evaluate(|v| *a.get(&v).unwrap_or(&C::ZERO))
}

fn c15_width<C: CellType>(t: &mut Tally, rng: &mut Rng, count: u64) {
    let bits = C::BITS;
    let nvars = 4;
    for i in 0..count {
        let mut g = ExprGen { rng, nvars, bits };
        let depth = g.rng.range(1, 4) as u32;
        let a = g.gen::<C>(depth);
        let b = g.gen::<C>(depth);
        let var = g.var();
        let sub: HashMap<isize, Expr<C>> = (-(nvars / 2)..=(nvars / 2)).map(|v| (v as isize, g.gen::<C>(1))).collect();
        let asg = assignments::<C>(rng, nvars);
        let sum = a.add(&b);
        let small = a.grouped_vars().count() * b.grouped_vars().count() <= 256;
        let prod = if small { Some(a.mul(&b)) } else { None };
        let neg = a.neg();
        let norm = a.clone().normalize();
        let half = a.half();
        let sym = a.symb_evaluate(|v| sub.get(&v).cloned());
        let inc = a.inc_of(var);
        let pinc = a.prod_inc_of(var);
        let cinc = a.const_inc_of(var);
        let pof = a.prod_of(var);
        let cst = a.constant();
        let ident = a.identity();
        // split_along
        let constant: HashSet<isize> = [(-2isize), 0].into_iter().filter(|_| rng.chance(2, 3)).collect();
        let mut linear: HashMap<isize, Expr<C>> = HashMap::new();
        for v in [-1isize, 1, 2] {
            if !constant.contains(&v) && rng.chance(2, 3) {
                // increments use only constants
                let c = Expr::<C>::val(C::from_u64(rng.below(5)));
                let k = if constant.contains(&0) && rng.chance(1, 2) { c.add(Expr::var(0)) } else { c };
                linear.insert(v, k);
            }
        }
        // hpbf's split_along takes its own hasher types; rebuild through the public aliases
        let mut bad = |t: &mut Tally, what: &str, rho: &HashMap<isize, C>| {
            t.inc("violated", 1);
            let rho_s: Vec<String> = {
                let mut ks: Vec<_> = rho.iter().collect();
                ks.sort();
                ks.iter().map(|(k, v)| format!("[{}]={}", k, v.into_u64())).collect()
            };
            t.violation(
                &format!("i{bits}:{}", what.split(':').next().unwrap_or("")),
                Obj::new().n("bits", bits).s("kind", "expr").s("why", what).s("a", &format!("{a:?}")).s("b", &format!("{b:?}")).n("var", var).s("assignment", &rho_s.join(" ")),
            );
        };
        for rho in &asg {
            let (va, vb) = (ev(&a, rho), ev(&b, rho));
            t.inc("evaluations", 1);
            if ev(&sum, rho) != va.wrapping_add(vb) {
                bad(t, "add: value of a.add(b) differs from value(a)+value(b)", rho);
            }
            if let Some(p) = &prod {
                if ev(p, rho) != va.wrapping_mul(vb) {
                    bad(t, "mul: value of a.mul(b) differs from value(a)*value(b)", rho);
                }
            }
            if ev(&neg, rho) != va.wrapping_neg() {
                bad(t, "neg: value of a.neg() differs from -value(a)", rho);
            }
            if ev(&norm, rho) != va {
                bad(t, "normalize: value changed by normalize()", rho);
            }
            if let Some(h) = &half {
                if ev(h, rho).wrapping_add(ev(h, rho)) != va {
                    bad(t, "half: 2*value(a.half()) differs from value(a)", rho);
                }
            }
            if let Some(s) = &sym {
                let rho2: HashMap<isize, C> = sub.iter().map(|(k, e)| (*k, ev(e, rho))).collect();
                if ev(s, rho) != ev(&a, &rho2) {
                    bad(t, "symb_evaluate: substitution result differs from composed evaluation", rho);
                }
            } else {
                bad(t, "symb_evaluate: returned None although every variable was mapped", rho);
            }
            let xv = *rho.get(&var).unwrap_or(&C::ZERO);
            if let Some(r) = &inc {
                if xv.wrapping_add(ev(r, rho)) != va {
                    bad(t, "inc_of: var + rest differs from the original", rho);
                }
            }
            if let Some((r, m)) = &pinc {
                if m.wrapping_mul(xv).wrapping_add(ev(r, rho)) != va {
                    bad(t, "prod_inc_of: m*var + rest differs from the original", rho);
                }
            }
            if let Some(c) = cinc {
                if xv.wrapping_add(c) != va {
                    bad(t, "const_inc_of: var + c differs from the original", rho);
                }
            }
            if let Some(r) = &pof {
                if xv.wrapping_mul(ev(r, rho)) != va {
                    bad(t, "prod_of: var * rest differs from the original", rho);
                }
            }
            if let Some(c) = cst {
                if c != va {
                    bad(t, "constant: Some(c) but the value differs from c", rho);
                }
            }
            if let Some(v) = ident {
                if *rho.get(&v).unwrap_or(&C::ZERO) != va {
                    bad(t, "identity: Some(v) but the value differs from the variable", rho);
                }
            }
            if a.is_zero() && va != C::ZERO {
                bad(t, "is_zero: true but value non-zero", rho);
            }
        }
        let zero_rho: HashMap<isize, C> = HashMap::new();
        if a.constant_part() != ev(&a, &zero_rho) {
            bad(t, "constant_part: differs from the value under the all-zero assignment", &zero_rho);
        }
        t.inc("expressions", 1);
        t.inc(&format!("i{bits}.expressions"), 1);
        for (name, some) in [("half", half.is_some()), ("inc_of", inc.is_some()), ("prod_inc_of", pinc.is_some()), ("const_inc_of", cinc.is_some()), ("prod_of", pof.is_some()), ("constant", cst.is_some()), ("identity", ident.is_some()), ("normalize_changed", norm != a)] {
            if some {
                t.inc(&format!("defined.{name}"), 1);
            }
        }
        let terms = a.grouped_vars().count();
        if terms >= 2 && a.grouped_vars().any(|v| v.len() >= 2) {
            t.distinct.insert(crate::rng::fnv64(format!("{bits}:{a:?}").as_bytes()));
        }
        if t.samples.len() < 6 && i % 500 == 3 {
            t.sample(Obj::new().n("bits", bits).s("a", &format!("{a:?}")).s("b", &format!("{b:?}")).s("a_add_b", &format!("{sum:?}")).s("a_normalized", &format!("{norm:?}")).done());
        }
        // split_along: constant + other + sum(initial) recomposes; each increment is the
        // initial part with its linear variable replaced by that variable's increment.
        let cset = constant.iter().copied().collect();
        let lmap = mk_map(linear.iter().map(|(k, v)| (*k, v.clone())).collect());
        let (cpart, opart, lparts) = a.split_along(&cset, &lmap);
        t.inc("split_along.linear_parts", lparts.len() as u64);
        for rho in &asg {
            let mut total = ev(&cpart, rho).wrapping_add(ev(&opart, rho));
            for (initial, increment) in &lparts {
                total = total.wrapping_add(ev(initial, rho));
                let lin_vars: Vec<isize> = initial.variables().filter(|v| !constant.contains(v)).collect();
                if lin_vars.len() != 1 || !linear.contains_key(&lin_vars[0]) {
                    bad(t, "split_along: a linear part does not contain exactly one linear variable", rho);
                    continue;
                }
                let lv = lin_vars[0];
                let mut rho2 = rho.clone();
                rho2.insert(lv, ev(&linear[&lv], rho));
                if ev(increment, rho) != ev(initial, &rho2) {
                    bad(t, "split_along: increment differs from the part with its variable replaced by its increment", rho);
                }
            }
            if total != ev(&a, rho) {
                bad(t, "split_along: constant + other + linear parts do not recompose to the original", rho);
            }
            if cpart.variables().any(|v| !constant.contains(&v)) {
                bad(t, "split_along: constant part mentions a non-constant variable", rho);
            }
        }
    }
}

/// Polynomials with *known* coefficients: `half` must halve every coefficient exactly (the
/// optimiser takes `Expr::val(n).half()` as the integer n/2 for trip counts), and the
/// constructors must agree with coefficient arithmetic done in u128.
fn c15_known<C: CellType>(t: &mut Tally, rng: &mut Rng, count: u64) {
    let bits = C::BITS;
    let m: u64 = if bits == 64 { u64::MAX } else { (1u64 << bits) - 1 };
    let monos: [&[isize]; 7] = [&[], &[0], &[1], &[0, 0], &[0, 1], &[-1], &[0, 1, 1]];
    for i in 0..count {
        let k = rng.range(1, 4) as usize;
        let mut picked: Vec<usize> = Vec::new();
        while picked.len() < k {
            let j = rng.below(monos.len() as u64) as usize;
            if !picked.contains(&j) {
                picked.push(j);
            }
        }
        let mut e = Expr::<C>::val(C::ZERO);
        let mut want_half = Expr::<C>::val(C::ZERO);
        let mut coefs = Vec::new();
        for &j in &picked {
            // even coefficients, biased to the upper half of the range and to the extremes
            let c = match rng.below(6) {
                0 => m - 1,
                1 => m - 1 - 2 * rng.below(60),
                2 => (1u64 << (bits - 1)) + 2 * rng.below(8),
                3 => 2 * rng.below(100),
                4 => 1u64 << (bits - 1),
                _ => rng.next() & m & !1,
            } & m & !1;
            if c == 0 {
                continue;
            }
            let mut mono = Expr::<C>::val(C::ONE);
            for &v in monos[j] {
                mono = mono.mul(Expr::var(v));
            }
            e = e.add(Expr::val(C::from_u64(c)).mul(&mono));
            want_half = want_half.add(Expr::val(C::from_u64(c >> 1)).mul(&mono));
            coefs.push((c, j));
        }
        t.inc("known_coefficient_polynomials", 1);
        t.inc("evaluations", 1);
        let got = match e.half() {
            Some(h) => h,
            None => {
                t.inc("violated", 1);
                t.violation(&format!("i{bits}:half-none"), Obj::new().n("bits", bits).s("kind", "expr").s("why", "half: None although every coefficient is even").s("a", &format!("{e:?}")));
                continue;
            }
        };
        for rho in &assignments::<C>(rng, 4) {
            if ev(&got, rho) != ev(&want_half, rho) {
                t.inc("violated", 1);
                t.violation(
                    &format!("i{bits}:half-coefficients"),
                    Obj::new().n("bits", bits).s("kind", "expr").s("why", "half: result is not the coefficient-wise half (the optimiser relies on val(n).half() == n/2)").s("a", &format!("{e:?}")).s("half", &format!("{got:?}")).s("expected", &format!("{want_half:?}")),
                );
                break;
            }
        }
        if coefs.len() >= 2 {
            t.distinct.insert(crate::rng::fnv64(format!("known:{bits}:{coefs:?}").as_bytes()));
        }
        if i == 5 && t.samples.len() < 8 {
            t.sample(Obj::new().n("bits", bits).s("known_polynomial", &format!("{e:?}")).s("half", &format!("{got:?}")).done());
        }
    }
}

pub fn c15(args: &Args) -> i32 {
    let mut t = Tally::new("C15", &args.replay_dir);
    let start = std::time::Instant::now();
    let mut rng = Rng::derive(args.seed, 15, args.shard);
    let n = args.count;
    c15_width::<u8>(&mut t, &mut rng, n);
    c15_width::<u16>(&mut t, &mut rng, n);
    c15_width::<u32>(&mut t, &mut rng, n);
    c15_width::<u64>(&mut t, &mut rng, n);
    if cfg!(miri) {
        // the interpreter is ~10^4 times slower: one polynomial at the two extreme widths
        c15_known::<u8>(&mut t, &mut rng, 1);
        c15_known::<u64>(&mut t, &mut rng, 1);
    } else {
        c15_known::<u8>(&mut t, &mut rng, n);
        c15_known::<u16>(&mut t, &mut rng, n);
        c15_known::<u32>(&mut t, &mut rng, n);
        c15_known::<u64>(&mut t, &mut rng, n);
    }
    t.write(&args.out, &[("wall_s".to_string(), format!("{:.2}", start.elapsed().as_secs_f64()))]);
    if t.violations.is_empty() {
        0
    } else {
        1
    }
}

// =================================================================================================
// batches in forked children (a memory fault or allocator abort must not take the monitor down)
// =================================================================================================

/// Run `f(i)` for i in from..to inside forked children. `f` returns Some(description) on a
/// violation. Returns the list of (index, description) found, including crashes.
#[cfg(not(miri))]
pub fn batched<F: Fn(u64) -> Option<String>>(from: u64, to: u64, per_batch: u64, alloc_mode: u32, f: F) -> Vec<(u64, String)> {
    use crate::sys::{self, ChildEnd};
    let mut found = Vec::new();
    let mut i = from;
    while i < to {
        let end_i = (i + per_batch).min(to);
        let sh = sys::shared();
        sh.scratch[0] = i;
        sh.fault_seen = 0;
        let end = sys::fork_run(0, || {
            crate::alloc::install_fault_handler();
            crate::alloc::set_mode(alloc_mode);
            sys::set_alarm(120);
            let sh = sys::shared();
            for k in i..end_i {
                sh.scratch[0] = k;
                if let Some(m) = f(k) {
                    sh.slots[0].set_msg(&m);
                    return 3;
                }
            }
            sh.scratch[0] = end_i;
            0
        });
        let sh = sys::shared();
        let at = sh.scratch[0];
        match end {
            ChildEnd::Exit(0) => i = end_i,
            ChildEnd::Exit(3) => {
                found.push((at, sh.slots[0].get_msg()));
                i = at + 1;
            }
            ChildEnd::Exit(70) => {
                found.push((at, format!("memory fault at {:#x} ({})", sh.fault_addr, if sh.fault_seen == 1 { "guard page / freed block" } else { "outside the arena" })));
                i = at + 1;
            }
            ChildEnd::Exit(c) if c == crate::alloc::EXIT_BAD_LAYOUT => {
                found.push((at, format!("allocator contract broken: {}", crate::alloc::bad_layout_text())));
                i = at + 1;
            }
            ChildEnd::Exit(c) => {
                found.push((at, format!("child exited with status {c}")));
                i = at + 1;
            }
            ChildEnd::Signal(s) => {
                found.push((at, format!("child died with signal {s}")));
                i = at + 1;
            }
            ChildEnd::Timeout => {
                found.push((at, "watchdog (120 s) fired".to_string()));
                i = at + 1;
            }
        }
    }
    found
}

#[cfg(miri)]
pub fn batched<F: Fn(u64) -> Option<String>>(from: u64, to: u64, _per_batch: u64, _alloc_mode: u32, f: F) -> Vec<(u64, String)> {
    let mut found = Vec::new();
    for k in from..to {
        if let Some(m) = f(k) {
            found.push((k, m));
        }
    }
    found
}

fn scratch_add(i: usize, n: u64) {
    crate::sys::shared().scratch[i] += n;
}

fn scratch_get(i: usize) -> u64 {
    crate::sys::shared().scratch[i]
}

// =================================================================================================
// C09 — tape API against a map model
// =================================================================================================

use hpbf::runtime::Memory;

fn c09_history<C: CellType>(seed: u64, idx: u64, ops: u64, trace: Option<&mut Vec<String>>) -> Option<String> {
    use crate::alloc;
    let mut rng = Rng::derive(seed, 9 + C::BITS as u64, idx);
    let mut mem = Memory::<C>::new();
    let mut model: HashMap<i64, u64> = HashMap::new();
    let mut acc: Vec<(i64, i64)> = Vec::new(); // logical ranges promised accessible
    let mut p: i64 = 0; // logical pointer
    let mut lo_t: i64 = 0; // touched territory
    let mut hi_t: i64 = 0;
    let m: u64 = if C::BITS == 64 { u64::MAX } else { (1u64 << C::BITS) - 1 };
    let mut tr = trace;
    let mut log = |s: String, tr: &mut Option<&mut Vec<String>>| {
        if let Some(t) = tr.as_mut() {
            t.push(s);
        }
    };
    let near = |rng: &mut Rng, p: i64, lo_t: i64, hi_t: i64| -> i64 {
        // an offset whose target lies within reach of touched territory
        let target = match rng.below(6) {
            0 => p,
            1 => rng.range(lo_t - 3, hi_t + 3),
            2 => lo_t - rng.range(1, 40),
            3 => hi_t + rng.range(1, 40),
            4 => rng.range(lo_t - 3000, hi_t + 3000),
            _ => {
                if rng.chance(1, 20) {
                    rng.range(lo_t - (1 << 17), hi_t + (1 << 17))
                } else {
                    rng.range(p - 8, p + 8)
                }
            }
        };
        target - p
    };
    let parked = |p: i64, lo_t: i64, hi_t: i64| p < lo_t - (1 << 21) || p > hi_t + (1 << 21);
    for step in 0..ops {
        let a0 = alloc::ARMED_ALLOCS.load(std::sync::atomic::Ordering::Relaxed);
        let op = rng.below(100);
        scratch_add(1, 1);
        if op < 22 {
            // read
            let off = if rng.chance(1, 10) { rng.range(-(1 << 42), 1 << 42) } else { near(&mut rng, p, lo_t, hi_t) };
            log(format!("read({off})"), &mut tr);
            alloc::arm(true);
            let got = mem.read(off as isize).into_u64();
            alloc::arm(false);
            let want = *model.get(&(p + off)).unwrap_or(&0);
            if got != want {
                return Some(format!("step {step}: read({off}) at logical {} returned {got}, model says {want}", p + off));
            }
            if alloc::ARMED_ALLOCS.load(std::sync::atomic::Ordering::Relaxed) != a0 {
                return Some(format!("step {step}: read({off}) allocated"));
            }
            scratch_add(2, 1);
        } else if op < 45 {
            // write (bounded distance)
            if parked(p, lo_t, hi_t) {
                continue;
            }
            let off = near(&mut rng, p, lo_t, hi_t);
            let val = match rng.below(4) {
                0 => 0,
                1 => m,
                _ => rng.next() & m,
            };
            log(format!("write({off},{val})"), &mut tr);
            alloc::arm(true);
            mem.write(off as isize, C::from_u64(val));
            alloc::arm(false);
            model.insert(p + off, val);
            acc.push((p + off, p + off + 1));
            lo_t = lo_t.min(p + off);
            hi_t = hi_t.max(p + off);
            scratch_add(3, 1);
        } else if op < 60 {
            // mov, sometimes far away
            let d = match rng.below(12) {
                0 => rng.range(-(1 << 40), 1 << 40),
                1 => -p + rng.range(lo_t, hi_t), // come back
                _ => near(&mut rng, p, lo_t, hi_t),
            };
            log(format!("mov({d})"), &mut tr);
            alloc::arm(true);
            mem.mov(d as isize);
            alloc::arm(false);
            p += d;
            if alloc::ARMED_ALLOCS.load(std::sync::atomic::Ordering::Relaxed) != a0 {
                return Some(format!("step {step}: mov({d}) allocated"));
            }
        } else if op < 72 {
            // make_accessible
            if parked(p, lo_t, hi_t) {
                continue;
            }
            let s = near(&mut rng, p, lo_t, hi_t);
            let len = match rng.below(5) {
                0 => 1,
                1 => rng.range(1, 10),
                2 => rng.range(10, 500),
                // ranges straddling the whole allocation: below and above at once
                3 => (hi_t - lo_t) + rng.range(2, 200),
                _ => rng.range(1, 5000),
            };
            let s = if rng.chance(1, 3) { (lo_t - p) - rng.range(1, 50) } else { s };
            let e = s + len;
            log(format!("make_accessible({s},{e})"), &mut tr);
            let below = !mem.check(s as isize);
            let above = !mem.check((e - 1) as isize);
            alloc::arm(true);
            mem.make_accessible(s as isize, e as isize);
            alloc::arm(false);
            scratch_add(match (below, above) {
                (true, true) => 9,
                (true, false) => 10,
                (false, true) => 11,
                _ => 12,
            }, 1);
            acc.push((p + s, p + e));
            lo_t = lo_t.min(p + s);
            hi_t = hi_t.max(p + e - 1);
            for o in [s, e - 1, s + len / 2] {
                if !mem.check(o as isize) {
                    return Some(format!("step {step}: after make_accessible({s},{e}) check({o}) is false"));
                }
            }
            scratch_add(4, 1);
        } else if op < 84 {
            // check / check_ptr agree, and promised ranges stay accessible
            let off = if rng.chance(1, 8) { rng.range(-(1 << 30), 1 << 30) } else { near(&mut rng, p, lo_t, hi_t) };
            log(format!("check({off})"), &mut tr);
            alloc::arm(true);
            let c = mem.check(off as isize);
            let ptr = mem.current_ptr().wrapping_offset(off as isize);
            let cp = mem.check_ptr(ptr);
            alloc::arm(false);
            if c != cp {
                return Some(format!("step {step}: check({off}) = {c} but check_ptr(current_ptr()+{off}) = {cp}"));
            }
            let promised = acc.iter().any(|&(s, e)| p + off >= s && p + off < e);
            if promised && !c {
                return Some(format!("step {step}: check({off}) false inside a range that was made accessible"));
            }
            if alloc::ARMED_ALLOCS.load(std::sync::atomic::Ordering::Relaxed) != a0 {
                return Some(format!("step {step}: check allocated"));
            }
            scratch_add(5, 1);
        } else if op < 94 {
            // pointer identity / pointer arithmetic as the back ends do it
            let k = if rng.chance(1, 6) { rng.range(-(1 << 30), 1 << 30) } else { near(&mut rng, p, lo_t, hi_t) };
            log(format!("set_current_ptr(current_ptr()+{k})"), &mut tr);
            alloc::arm(true);
            let ptr = mem.current_ptr();
            mem.set_current_ptr(ptr.wrapping_offset(k as isize));
            alloc::arm(false);
            p += k;
            if alloc::ARMED_ALLOCS.load(std::sync::atomic::Ordering::Relaxed) != a0 {
                return Some(format!("step {step}: pointer conversion allocated"));
            }
            let got = mem.read(0).into_u64();
            let want = *model.get(&p).unwrap_or(&0);
            if got != want {
                return Some(format!("step {step}: after set_current_ptr(current_ptr()+{k}) read(0) = {got}, model says {want}"));
            }
            scratch_add(6, 1);
        } else {
            // quiescent-point invariant: compare every model cell
            log("audit".to_string(), &mut tr);
            for (&c, &v) in model.iter() {
                let got = mem.read((c - p) as isize).into_u64();
                if got != v {
                    return Some(format!("step {step}: audit: logical cell {c} holds {got}, model says {v}"));
                }
            }
            scratch_add(7, 1);
        }
        // after any operation that allocated: full audit (growth must preserve contents + pointer)
        if alloc::ARMED_ALLOCS.load(std::sync::atomic::Ordering::Relaxed) != a0 {
            scratch_add(8, 1);
            for (&c, &v) in model.iter() {
                let got = mem.read((c - p) as isize).into_u64();
                if got != v {
                    return Some(format!("step {step}: after growth logical cell {c} holds {got}, model says {v}"));
                }
            }
            for &(s, e) in acc.iter() {
                if !mem.check((s - p) as isize) || !mem.check((e - 1 - p) as isize) {
                    return Some(format!("step {step}: after growth the promised range [{s},{e}) is no longer accessible"));
                }
            }
        }
    }
    alloc::arm(true);
    drop(mem);
    alloc::arm(false);
    None
}

pub fn c09(args: &Args) -> i32 {
    let mut t = Tally::new("C09", &args.replay_dir);
    let start = std::time::Instant::now();
    let ops = args.get_u64("ops", 300);
    let modes: Vec<u32> = if cfg!(miri) { vec![0] } else { vec![crate::alloc::GUARD_RIGHT, crate::alloc::GUARD_LEFT, crate::alloc::PASS] };
    let per = args.count;
    for (mi, &mode) in modes.iter().enumerate() {
        for bits in [8u32, 16, 32, 64] {
            let from = args.shard * per;
            let to = from + per;
            let seed = args.seed.wrapping_add(mi as u64 * 1000);
            let found = batched(from, to, 200, mode, |i| match bits {
                8 => c09_history::<u8>(seed, i, ops, None),
                16 => c09_history::<u16>(seed, i, ops, None),
                32 => c09_history::<u32>(seed, i, ops, None),
                _ => c09_history::<u64>(seed, i, ops, None),
            });
            t.inc("histories", per);
            t.inc(&format!("histories.alloc_mode_{mode}"), per);
            t.inc("evaluations", per);
            for i in from..to.min(from + 400) {
                t.distinct.insert(crate::rng::fnv64(format!("{seed}:{bits}:{i}").as_bytes()));
            }
            for (i, why) in found {
                t.inc("violated", 1);
                let sig = why.split(':').nth(1).unwrap_or(&why).trim().chars().take(40).collect::<String>();
                t.violation(&sig, Obj::new().s("kind", "memory_history").n("bits", bits).n("hist_seed", seed).n("index", i).n("ops", ops).n("alloc_mode", mode).s("why", &why));
            }
        }
    }
    for (k, name) in [(1, "ops"), (2, "reads"), (3, "writes"), (4, "make_accessible"), (5, "checks"), (6, "pointer_roundtrips"), (7, "audits"), (8, "growths_observed"), (9, "requests_extending_both_sides"), (10, "requests_extending_below"), (11, "requests_extending_above"), (12, "requests_already_accessible")] {
        t.inc(name, scratch_get(k));
    }
    // one written-out sample history
    let mut trace = Vec::new();
    let _ = c09_history::<u16>(args.seed, args.shard * per, 40, Some(&mut trace));
    t.sample(Obj::new().n("bits", 16).s("history", &trace.join("; ")).done());
    t.write(&args.out, &[("wall_s".to_string(), format!("{:.2}", start.elapsed().as_secs_f64()))]);
    if t.violations.is_empty() {
        0
    } else {
        1
    }
}

pub fn c09_replay(args: &Args) -> i32 {
    let bits = args.get_u64("bits", 8);
    let seed = args.get_u64("hist-seed", 1);
    let idx = args.get_u64("index", 0);
    let ops = args.get_u64("ops", 300);
    let mode = args.get_u64("alloc-mode", 0) as u32;
    let found = batched(idx, idx + 1, 1, mode, |i| match bits {
        8 => c09_history::<u8>(seed, i, ops, None),
        16 => c09_history::<u16>(seed, i, ops, None),
        32 => c09_history::<u32>(seed, i, ops, None),
        _ => c09_history::<u64>(seed, i, ops, None),
    });
    for (i, w) in &found {
        println!("history {i}: {w}");
    }
    if found.is_empty() {
        println!("held");
        0
    } else {
        println!("VIOLATION property=C09 replay={}", args.get("replay-path").unwrap_or("-"));
        1
    }
}

// =================================================================================================
// C18 — SmallVec against Vec, exactly-once drop
// =================================================================================================

use hpbf::verif::SmallVec;
use std::cell::RefCell;
use std::hash::{Hash, Hasher};

thread_local! {
    static LIVE: RefCell<HashSet<u32>> = RefCell::new(HashSet::new());
    static NEXT_ID: RefCell<u32> = const { RefCell::new(0) };
    static DROP_ERR: RefCell<Option<String>> = const { RefCell::new(None) };
    static CREATED: RefCell<u64> = const { RefCell::new(0) };
    static DROPPED: RefCell<u64> = const { RefCell::new(0) };
}

trait Elem: Clone + Ord + Hash + std::fmt::Debug {
    const TRACKED: bool;
    fn make(key: u8) -> Self;
    fn key(&self) -> u8;
    fn set_key(&mut self, k: u8);
}

#[derive(Debug)]
struct Tracked {
    id: u32,
    key: u8,
    boxed: Box<u32>,
}

impl Elem for Tracked {
    const TRACKED: bool = true;
    fn make(key: u8) -> Self {
        let id = NEXT_ID.with(|n| {
            let mut n = n.borrow_mut();
            *n += 1;
            *n
        });
        LIVE.with(|l| l.borrow_mut().insert(id));
        CREATED.with(|c| *c.borrow_mut() += 1);
        Tracked { id, key, boxed: Box::new(id ^ 0x5a5a5a5a) }
    }
    fn key(&self) -> u8 {
        self.key
    }
    fn set_key(&mut self, k: u8) {
        self.key = k;
    }
}

impl Clone for Tracked {
    fn clone(&self) -> Self {
        Tracked::make(self.key)
    }
}

impl Drop for Tracked {
    fn drop(&mut self) {
        DROPPED.with(|c| *c.borrow_mut() += 1);
        let ok = LIVE.with(|l| l.borrow_mut().remove(&self.id));
        if !ok {
            DROP_ERR.with(|e| {
                let mut e = e.borrow_mut();
                if e.is_none() {
                    *e = Some(format!("element id {} dropped twice (or never constructed)", self.id));
                }
            });
        } else if *self.boxed != self.id ^ 0x5a5a5a5a {
            DROP_ERR.with(|e| *e.borrow_mut() = Some(format!("element id {} corrupted", self.id)));
        }
    }
}

impl PartialEq for Tracked {
    fn eq(&self, o: &Self) -> bool {
        self.key == o.key
    }
}
impl Eq for Tracked {}
impl PartialOrd for Tracked {
    fn partial_cmp(&self, o: &Self) -> Option<std::cmp::Ordering> {
        Some(self.cmp(o))
    }
}
impl Ord for Tracked {
    fn cmp(&self, o: &Self) -> std::cmp::Ordering {
        self.key.cmp(&o.key)
    }
}
impl Hash for Tracked {
    fn hash<H: Hasher>(&self, h: &mut H) {
        self.key.hash(h)
    }
}

#[derive(Clone, Debug, PartialEq, Eq, PartialOrd, Ord)]
struct Plain(u8);

impl Hash for Plain {
    fn hash<H: Hasher>(&self, h: &mut H) {
        self.0.hash(h)
    }
}

impl Elem for Plain {
    const TRACKED: bool = false;
    fn make(key: u8) -> Self {
        Plain(key)
    }
    fn key(&self) -> u8 {
        self.0
    }
    fn set_key(&mut self, k: u8) {
        self.0 = k;
    }
}

/// model element: hashes / compares exactly like the real one
#[derive(Clone, Debug, PartialEq, Eq, PartialOrd, Ord)]
struct K(u8);
impl Hash for K {
    fn hash<H: Hasher>(&self, h: &mut H) {
        self.0.hash(h)
    }
}

fn hash_of<T: Hash>(t: &T) -> u64 {
    let mut h = std::collections::hash_map::DefaultHasher::new();
    t.hash(&mut h);
    h.finish()
}

fn c18_history<T: Elem, const N: usize>(seed: u64, idx: u64, ops: u64, mut trace: Option<&mut Vec<String>>) -> Option<String> {
    let mut rng = Rng::derive(seed, 18 + N as u64 * 2 + T::TRACKED as u64, idx);
    let base_live = LIVE.with(|l| l.borrow().len());
    let mut pool: Vec<(SmallVec<T, N>, Vec<K>)> = Vec::new();
    let key = |rng: &mut Rng| rng.below(4) as u8;
    let mut note = |s: String| {
        if let Some(t) = trace.as_mut() {
            t.push(s);
        }
    };
    macro_rules! same {
        ($real:expr, $model:expr, $what:expr, $step:expr) => {{
            let r: Vec<u8> = $real.as_slice().iter().map(|e| e.key()).collect();
            let m: Vec<u8> = $model.iter().map(|k| k.0).collect();
            if r != m {
                return Some(format!("step {}: after {} the small vector holds {:?}, the Vec model {:?}", $step, $what, r, m));
            }
        }};
    }
    for step in 0..ops {
        scratch_add(1, 1);
        if pool.is_empty() || (pool.len() < 4 && rng.chance(1, 8)) {
            // constructors
            let (sv, model, what): (SmallVec<T, N>, Vec<K>, String) = match rng.below(7) {
                0 => (SmallVec::new(), vec![], "new".into()),
                1 => {
                    // mostly around the inline capacity, sometimes large (big heap buffers)
                    let c = if rng.chance(1, 6) { rng.range(40, 130) as usize } else { rng.below(5) as usize };
                    (SmallVec::with_capacity(c), vec![], format!("with_capacity({c})"))
                }
                2 => {
                    let k = key(&mut rng);
                    (SmallVec::with(T::make(k)), vec![K(k)], format!("with({k})"))
                }
                3 => {
                    let (a, b) = (key(&mut rng), key(&mut rng));
                    (SmallVec::with_all([T::make(a), T::make(b)]), vec![K(a), K(b)], format!("with_all([{a},{b}])"))
                }
                4 => {
                    let (a, b, c) = (key(&mut rng), key(&mut rng), key(&mut rng));
                    (SmallVec::with_all([T::make(a), T::make(b), T::make(c)]), vec![K(a), K(b), K(c)], format!("with_all([{a},{b},{c}])"))
                }
                5 => (SmallVec::with_all([]), vec![], "with_all([])".into()),
                _ => {
                    let n = rng.below(5);
                    let ks: Vec<u8> = (0..n).map(|_| key(&mut rng)).collect();
                    (SmallVec::from_vec(ks.iter().map(|&k| T::make(k)).collect()), ks.iter().map(|&k| K(k)).collect(), format!("from_vec({ks:?})"))
                }
            };
            note(what.clone());
            same!(sv, model, what, step);
            pool.push((sv, model));
            continue;
        }
        let pi = rng.below(pool.len() as u64) as usize;
        let op = rng.below(100);
        let what: String;
        if op < 22 {
            let k = key(&mut rng);
            what = format!("push({k})");
            pool[pi].0.push(T::make(k));
            pool[pi].1.push(K(k));
        } else if op < 30 {
            // usually a few elements; now and then enough to grow the heap buffer well past 64
            // (under Miri big extends are rare: each element costs tens of milliseconds there)
            let big = if cfg!(miri) { rng.chance(1, 150) } else { rng.chance(1, 12) };
            let n = if big { rng.range(30, 100) as u64 } else { rng.below(4) };
            let ks: Vec<u8> = (0..n).map(|_| key(&mut rng)).collect();
            what = if ks.len() > 8 { format!("extend({} elements)", ks.len()) } else { format!("extend({ks:?})") };
            pool[pi].0.extend(ks.iter().map(|&k| T::make(k)));
            pool[pi].1.extend(ks.iter().map(|&k| K(k)));
        } else if op < 36 {
            what = "clear".into();
            pool[pi].0.clear();
            pool[pi].1.clear();
        } else if op < 46 {
            let t = key(&mut rng);
            what = format!("retain(key != {t})");
            pool[pi].0.retain(|e| e.key() != t);
            pool[pi].1.retain(|k| k.0 != t);
        } else if op < 54 {
            let t = key(&mut rng);
            // half of the time the predicate replaces the whole element (old value dropped inside
            // the closure, a new one with its own identity stored) before deciding
            let replace = rng.chance(1, 2);
            what = format!("retain_mut(key+1{}; keep != {t})", if replace { " by replacing the element" } else { "" });
            pool[pi].0.retain_mut(|e| {
                let k = e.key().wrapping_add(1) % 4;
                if replace {
                    *e = T::make(k);
                } else {
                    e.set_key(k);
                }
                k != t
            });
            pool[pi].1.retain_mut(|k| {
                k.0 = k.0.wrapping_add(1) % 4;
                k.0 != t
            });
        } else if op < 62 {
            what = "dedup".into();
            pool[pi].0.dedup();
            pool[pi].1.dedup();
        } else if op < 68 {
            what = "sort".into();
            pool[pi].0.sort();
            pool[pi].1.sort();
        } else if op < 74 {
            what = "clone".into();
            let c = pool[pi].0.clone();
            let cm = pool[pi].1.clone();
            same!(c, cm, "clone (the copy)", step);
            if pool.len() < 5 {
                pool.push((c, cm));
            }
        } else if op < 80 {
            // comparisons / hash against the model
            let pj = rng.below(pool.len() as u64) as usize;
            what = format!("eq/cmp/hash with #{pj}");
            let (a, b) = (&pool[pi], &pool[pj]);
            if (a.0 == b.0) != (a.1 == b.1) {
                return Some(format!("step {step}: == disagrees with the model for {:?} vs {:?}", a.1, b.1));
            }
            if a.0.cmp(&b.0) != a.1.cmp(&b.1) {
                return Some(format!("step {step}: cmp disagrees with the model for {:?} vs {:?}", a.1, b.1));
            }
            if a.0.partial_cmp(&b.0) != a.1.partial_cmp(&b.1) {
                return Some(format!("step {step}: partial_cmp disagrees with the model"));
            }
            if hash_of(&a.0) != hash_of(&a.1) {
                return Some(format!("step {step}: hash differs from the hash of the equivalent Vec {:?}", a.1));
            }
        } else if op < 85 {
            what = "index/iter/len".into();
            let (sv, m) = &pool[pi];
            if sv.len() != m.len() || sv.is_empty() != m.is_empty() {
                return Some(format!("step {step}: len {} vs model {}", sv.len(), m.len()));
            }
            for i in 0..m.len() {
                if sv[i].key() != m[i].0 {
                    return Some(format!("step {step}: index {i} differs"));
                }
            }
            let it: Vec<u8> = sv.iter().map(|e| e.key()).collect();
            let it2: Vec<u8> = (&*sv).into_iter().map(|e| e.key()).collect();
            if it != it2 || it.len() != m.len() {
                return Some(format!("step {step}: iteration by reference differs"));
            }
        } else if op < 89 {
            what = "iter_mut(+1)".into();
            for e in &mut pool[pi].0 {
                let k = (e.key() + 1) % 4;
                e.set_key(k);
            }
            for k in pool[pi].1.iter_mut() {
                k.0 = (k.0 + 1) % 4;
            }
        } else if op < 97 {
            // by-value iteration: full, partial, none
            let (sv, m) = pool.swap_remove(pi);
            let take = match rng.below(3) {
                0 => 0,
                1 => m.len(),
                _ => rng.below(m.len() as u64 + 1) as usize,
            };
            what = format!("into_iter, consume {take} of {}", m.len());
            let mut it = sv.into_iter();
            let mut got = Vec::new();
            for _ in 0..take {
                match it.next() {
                    Some(e) => got.push(e.key()),
                    None => return Some(format!("step {step}: by-value iterator ended after {} of {} elements", got.len(), m.len())),
                }
            }
            let want: Vec<u8> = m.iter().take(take).map(|k| k.0).collect();
            if got != want {
                return Some(format!("step {step}: by-value iteration yielded {got:?}, model {want:?}"));
            }
            if take == m.len() && it.next().is_some() {
                return Some(format!("step {step}: by-value iterator yielded more than {} elements", m.len()));
            }
            drop(it);
            scratch_add(3, 1);
        } else {
            what = "drop".into();
            pool.swap_remove(pi);
        }
        note(what.clone());
        if pi < pool.len() {
            same!(pool[pi].0, pool[pi].1, what, step);
            let inline = pool[pi].1.len() <= N;
            scratch_add(if inline { 4 } else { 5 }, 1);
        }
        // quiescent point: drop accounting
        if T::TRACKED {
            if let Some(e) = DROP_ERR.with(|e| e.borrow_mut().take()) {
                return Some(format!("step {step}: after {what}: {e}"));
            }
            let held: usize = pool.iter().map(|(_, m)| m.len()).sum();
            let live = LIVE.with(|l| l.borrow().len()) - base_live;
            if live != held {
                return Some(format!(
                    "step {step}: after {what}: {live} tracked elements are alive but the vectors hold {held} ({})",
                    if live > held { "leak: removed elements were never dropped" } else { "elements dropped while still held" }
                ));
            }
            scratch_add(2, 1);
        }
    }
    drop(pool);
    if T::TRACKED {
        if let Some(e) = DROP_ERR.with(|e| e.borrow_mut().take()) {
            return Some(format!("at the end: {e}"));
        }
        let live = LIVE.with(|l| l.borrow().len()) - base_live;
        if live != 0 {
            return Some(format!("at the end: {live} elements were never dropped"));
        }
    }
    None
}

fn c18_dispatch(n: usize, tracked: bool, seed: u64, i: u64, ops: u64, trace: Option<&mut Vec<String>>) -> Option<String> {
    match (n, tracked) {
        (1, true) => c18_history::<Tracked, 1>(seed, i, ops, trace),
        (1, false) => c18_history::<Plain, 1>(seed, i, ops, trace),
        (2, true) => c18_history::<Tracked, 2>(seed, i, ops, trace),
        (2, false) => c18_history::<Plain, 2>(seed, i, ops, trace),
        (4, true) => c18_history::<Tracked, 4>(seed, i, ops, trace),
        _ => c18_history::<Plain, 4>(seed, i, ops, trace),
    }
}

pub fn c18(args: &Args) -> i32 {
    let mut t = Tally::new("C18", &args.replay_dir);
    let start = std::time::Instant::now();
    let ops = args.get_u64("ops", 120);
    let per = args.count;
    for n in [1usize, 2, 4] {
        for tracked in [true, false] {
            let from = args.shard * per;
            let to = from + per;
            let seed = args.seed;
            let (a0, f0, _, _) = crate::alloc::counters();
            let found = batched(from, to, 500, crate::alloc::PASS, |i| c18_dispatch(n, tracked, seed, i, ops, None));
            let _ = (a0, f0);
            t.inc("histories", per);
            t.inc(&format!("histories.N{n}.{}", if tracked { "tracked" } else { "plain" }), per);
            t.inc("evaluations", per);
            for i in from..to.min(from + 400) {
                t.distinct.insert(crate::rng::fnv64(format!("{seed}:{n}:{tracked}:{i}").as_bytes()));
            }
            for (i, why) in found {
                t.inc("violated", 1);
                let what = why.split("after ").nth(1).unwrap_or(&why);
                let opname: String = what.chars().take_while(|c| c.is_alphabetic() || *c == '_').collect();
                let kind = if why.contains("leak") { "leak" } else if why.contains("twice") { "double_drop" } else if why.contains("model") { "contents" } else { "other" };
                t.violation(
                    &format!("N{n}:{opname}:{kind}"),
                    Obj::new().s("kind", "smallvec_history").n("n", n).b("tracked", tracked).s("op", &opname).s("defect", kind).n("hist_seed", seed).n("index", i).n("ops", ops).s("why", &why),
                );
            }
        }
    }
    for (k, name) in [(1, "ops"), (2, "drop_audits"), (3, "by_value_iterations"), (4, "ops_on_inline_repr"), (5, "ops_on_heap_repr")] {
        t.inc(name, scratch_get(k));
    }
    let mut trace = Vec::new();
    let _ = c18_dispatch(1, true, args.seed, args.shard * per, 30, Some(&mut trace));
    t.sample(Obj::new().n("N", 1).s("element", "drop-tracked").s("history", &trace.join("; ")).done());
    t.write(&args.out, &[("wall_s".to_string(), format!("{:.2}", start.elapsed().as_secs_f64()))]);
    if t.violations.is_empty() {
        0
    } else {
        1
    }
}

pub fn c18_replay(args: &Args) -> i32 {
    let n = args.get_u64("n", 1) as usize;
    let tracked = args.get("tracked").map(|s| s == "true" || s == "1").unwrap_or(true);
    let seed = args.get_u64("hist-seed", 1);
    let idx = args.get_u64("index", 0);
    let ops = args.get_u64("ops", 120);
    let found = batched(idx, idx + 1, 1, 0, |i| c18_dispatch(n, tracked, seed, i, ops, None));
    for (i, w) in &found {
        println!("history {i}: {w}");
    }
    if found.is_empty() {
        println!("held");
        0
    } else {
        println!("VIOLATION property=C18 replay={}", args.get("replay-path").unwrap_or("-"));
        1
    }
}
