//! Monitors over the bytecode that the unsafe back ends execute blindly:
//!  * `validate`: the C11 contract as a static all-paths check (CFG + dataflow);
//!  * `interp`: an independent reference interpreter for the bytecode, optionally in
//!    adversarial-contract mode (registers not declared live are destroyed at every
//!    instruction, uninitialised temporaries are poison);
//!  * `selector_key`: classifies an instruction into the case of the JIT's instruction
//!    selector it will take (for coverage evidence).

use crate::bcview::{operands, BcView, I, L};
use crate::spec::{ev_in, ev_out, EV_EOF};

#[derive(Clone, Debug, PartialEq)]
pub struct Violation {
    pub rule: &'static str,
    pub at: usize,
    pub detail: String,
}

fn succs(v: &BcView, i: usize) -> Vec<usize> {
    match v.insts[i] {
        I::BrZ(_, off) | I::BrNZ(_, off) => {
            let t = i as isize + off;
            vec![i + 1, t as usize]
        }
        _ => vec![i + 1],
    }
}

/// Check the contract. `nregs`: number of register temporaries of the generator setting (2 / 11).
pub fn validate(v: &BcView, nregs: usize) -> Vec<Violation> {
    let mut out = Vec::new();
    let n = v.insts.len();
    let mut bad = |rule: &'static str, at: usize, detail: String| {
        out.push(Violation { rule, at, detail });
    };
    if v.live.len() != n {
        bad("live_len", 0, format!("live.len()={} insts.len()={}", v.live.len(), n));
        return out;
    }
    if !(v.min <= 0 && 0 <= v.max) {
        bad("window_contains_zero", 0, format!("window [{}, {}]", v.min, v.max));
    }
    let in_win = |m: isize| m >= v.min && m <= v.max;
    let mut cfg_ok = true;
    for (i, inst) in v.insts.iter().enumerate() {
        match *inst {
            I::BrZ(c, off) | I::BrNZ(c, off) => {
                let t = i as isize + off;
                if t < 0 || t > n as isize {
                    bad("branch_target", i, format!("target {t} outside 0..={n}"));
                    cfg_ok = false;
                }
                if !in_win(c) {
                    bad("operand_window", i, format!("cond [{c}] outside [{}, {}]", v.min, v.max));
                }
            }
            I::Scan(c, _) | I::Inp(c) | I::Out(c) => {
                if !in_win(c) {
                    bad("operand_window", i, format!("[{c}] outside [{}, {}]", v.min, v.max));
                }
            }
            I::Noop | I::Mov(_) => {}
            _ => {}
        }
        let (d, srcs) = operands(inst);
        for l in d.iter().chain(srcs.iter()) {
            match *l {
                L::Mem(m) | L::MemZero(m) => {
                    if !in_win(m) {
                        bad("operand_window", i, format!("[{m}] outside [{}, {}]", v.min, v.max));
                    }
                }
                L::Tmp(t) => {
                    if t >= v.temps {
                        bad("temp_index", i, format!("%{t} >= temps {}", v.temps));
                    }
                }
                L::Imm(_) => {}
            }
        }
        if let Some(L::Imm(_)) | Some(L::MemZero(_)) = d {
            bad("dst_kind", i, "destination is not writable".to_string());
        }
    }
    if !cfg_ok {
        return out;
    }
    // --- must-be-defined forward analysis over temporaries -------------------------------
    let nt = v
        .insts
        .iter()
        .flat_map(|i| {
            let (d, s) = operands(i);
            d.into_iter().chain(s.into_iter()).filter_map(|l| if let L::Tmp(t) = l { Some(t + 1) } else { None })
        })
        .max()
        .unwrap_or(0);
    if nt > 0 {
        let words = (nt + 63) / 64;
        // defined_in[i]: bitset; start with all-ones (top) except entry
        let mut din: Vec<Vec<u64>> = vec![vec![u64::MAX; words]; n + 1];
        din[0] = vec![0; words];
        let mut work: Vec<usize> = vec![0];
        let mut inq = vec![false; n + 1];
        inq[0] = true;
        while let Some(i) = work.pop() {
            inq[i] = false;
            if i >= n {
                continue;
            }
            let mut dout = din[i].clone();
            if let (Some(L::Tmp(t)), _) = operands(&v.insts[i]) {
                dout[t / 64] |= 1 << (t % 64);
            }
            for s in succs(v, i) {
                let mut changed = false;
                for w in 0..words {
                    let nv = din[s][w] & dout[w];
                    if nv != din[s][w] {
                        din[s][w] = nv;
                        changed = true;
                    }
                }
                if changed && !inq[s] {
                    inq[s] = true;
                    work.push(s);
                }
            }
        }
        // reachability (instructions never reached keep top; ignore them)
        let mut reach = vec![false; n + 1];
        let mut st = vec![0usize];
        reach[0] = true;
        while let Some(i) = st.pop() {
            if i >= n {
                continue;
            }
            for s in succs(v, i) {
                if !reach[s] {
                    reach[s] = true;
                    st.push(s);
                }
            }
        }
        for i in 0..n {
            if !reach[i] {
                continue;
            }
            let (_, srcs) = operands(&v.insts[i]);
            for s in srcs {
                if let L::Tmp(t) = s {
                    if din[i][t / 64] & (1 << (t % 64)) == 0 {
                        bad("temp_read_before_write", i, format!("%{t} may be read before it is written"));
                    }
                }
            }
        }
        // --- backward liveness of temporaries ---------------------------------------------
        let mut lin: Vec<Vec<u64>> = vec![vec![0; words]; n + 1];
        let mut changed = true;
        while changed {
            changed = false;
            for i in (0..n).rev() {
                let mut lout = vec![0u64; words];
                for s in succs(v, i) {
                    for w in 0..words {
                        lout[w] |= lin[s][w];
                    }
                }
                let (d, srcs) = operands(&v.insts[i]);
                let mut li = lout.clone();
                if let Some(L::Tmp(t)) = d {
                    li[t / 64] &= !(1 << (t % 64));
                }
                for s in srcs {
                    if let L::Tmp(t) = s {
                        li[t / 64] |= 1 << (t % 64);
                    }
                }
                if li != lin[i] {
                    lin[i] = li;
                    changed = true;
                }
            }
        }
        for i in 0..n {
            if !reach[i] {
                continue;
            }
            if let I::BrZ(..) | I::BrNZ(..) = v.insts[i] {
                continue;
            }
            let mut lout = vec![0u64; words];
            for s in succs(v, i) {
                for w in 0..words {
                    lout[w] |= lin[s][w];
                }
            }
            let (d, _) = operands(&v.insts[i]);
            for t in 0..nregs.min(16).min(nt) {
                let needed = lout[t / 64] & (1 << (t % 64)) != 0;
                let defined_here = d == Some(L::Tmp(t));
                if needed && !defined_here && v.live[i] & (1 << t) == 0 {
                    bad("live_bit_missing", i, format!("%{t} is needed after instruction {i} but not declared live"));
                }
            }
        }
    }
    out
}

// ---- reference interpreter ---------------------------------------------------------------------

pub struct RefRun {
    pub events: Vec<u16>,
    pub total_events: u64,
    pub finished: bool,
    pub trap: Option<String>,
    pub steps: u64,
}

struct RTape {
    cells: std::collections::HashMap<i64, u64>,
}

impl RTape {
    fn get(&self, p: i64) -> u64 {
        *self.cells.get(&p).unwrap_or(&0)
    }
    fn set(&mut self, p: i64, v: u64) {
        if v == 0 {
            self.cells.remove(&p);
        } else {
            self.cells.insert(p, v);
        }
    }
}

/// Execute `v`. `adversarial`: temporaries start poisoned and register temporaries (< nregs) that
/// are not declared live across an instruction are destroyed by it.
pub fn interp(v: &BcView, input: &[u8], nregs: usize, adversarial: bool, step_cap: u64, event_cap: usize) -> RefRun {
    let mask = v.mask();
    let mut tape = RTape { cells: Default::default() };
    let mut ptr: i64 = 0;
    let mut temps: Vec<Option<u64>> = vec![if adversarial { None } else { Some(0) }; v.temps.max(nregs).max(2) + 1];
    let mut r = RefRun { events: Vec::new(), total_events: 0, finished: false, trap: None, steps: 0 };
    let mut inpos = 0usize;
    let n = v.insts.len();
    let mut pc = 0usize;
    macro_rules! trap {
        ($($a:tt)*) => {{ r.trap = Some(format!($($a)*)); return r; }};
    }
    while pc < n {
        if r.steps >= step_cap {
            return r;
        }
        r.steps += 1;
        let inst = v.insts[pc];
        let mut next = pc + 1;
        match inst {
            I::Noop => {}
            I::Mov(s) => ptr += s as i64,
            I::Scan(c, s) => {
                let mut guard = 0u64;
                while tape.get(ptr + c as i64) != 0 {
                    ptr += s as i64;
                    guard += 1;
                    r.steps += 1;
                    if guard > step_cap || r.steps >= step_cap {
                        return r;
                    }
                }
            }
            I::Inp(d) => {
                let (val, ev) = if inpos < input.len() {
                    inpos += 1;
                    (input[inpos - 1] as u64, ev_in(input[inpos - 1]))
                } else {
                    (0, EV_EOF)
                };
                tape.set(ptr + d as i64, val);
                r.total_events += 1;
                if r.events.len() < event_cap {
                    r.events.push(ev);
                }
            }
            I::Out(s) => {
                let b = tape.get(ptr + s as i64) as u8;
                r.total_events += 1;
                if r.events.len() < event_cap {
                    r.events.push(ev_out(b));
                }
            }
            I::BrZ(c, off) => {
                if tape.get(ptr + c as i64) == 0 {
                    next = (pc as isize + off) as usize;
                }
            }
            I::BrNZ(c, off) => {
                if tape.get(ptr + c as i64) != 0 {
                    next = (pc as isize + off) as usize;
                }
            }
            I::Add(..) | I::Sub(..) | I::Mul(..) | I::Copy(..) => {
                let (d, srcs) = operands(&inst);
                let mut vals = [0u64; 2];
                for (k, s) in srcs.iter().enumerate() {
                    vals[k] = match *s {
                        L::Mem(m) => tape.get(ptr + m as i64),
                        L::MemZero(m) => {
                            let x = tape.get(ptr + m as i64);
                            tape.set(ptr + m as i64, 0);
                            x
                        }
                        L::Tmp(t) => match temps.get(t).copied().flatten() {
                            Some(x) => x,
                            None => trap!("instruction {pc} ({inst:?}) reads destroyed/uninitialised %{t}"),
                        },
                        L::Imm(x) => x,
                    };
                }
                let val = match inst {
                    I::Add(..) => vals[0].wrapping_add(vals[1]),
                    I::Sub(..) => vals[0].wrapping_sub(vals[1]),
                    I::Mul(..) => vals[0].wrapping_mul(vals[1]),
                    _ => vals[0],
                } & mask;
                if adversarial {
                    for t in 0..nregs.min(16) {
                        if v.live[pc] & (1 << t) == 0 {
                            temps[t] = None;
                        }
                    }
                }
                match d.unwrap() {
                    L::Mem(m) => tape.set(ptr + m as i64, val),
                    L::Tmp(t) => {
                        if t >= temps.len() {
                            trap!("instruction {pc} writes %{t} beyond temps");
                        }
                        temps[t] = Some(val)
                    }
                    other => trap!("instruction {pc} writes to {other:?}"),
                }
            }
        }
        if adversarial {
            // Mov / Inp / Out may call the runtime: caller-saved registers not declared live die.
            if let I::Mov(_) | I::Inp(_) | I::Out(_) | I::Scan(..) = inst {
                for t in 0..nregs.min(16) {
                    if v.live[pc] & (1 << t) == 0 {
                        temps[t] = None;
                    }
                }
            }
        }
        if next > n {
            trap!("branch from {pc} to {next} outside program");
        }
        pc = next;
    }
    r.finished = true;
    r
}

// ---- JIT selector case classification --------------------------------------------------------

fn tmp_class(t: usize) -> u32 {
    if t < 4 {
        1 // callee-saved register
    } else if t < 11 {
        2 // caller-saved register
    } else {
        3 // stack slot
    }
}

fn loc_class(v: &BcView, l: L) -> (u32, char) {
    match l {
        L::Mem(_) => (0, 'M'),
        L::MemZero(_) => (0, 'Z'),
        L::Tmp(t) => (tmp_class(t), ['?', 'R', 'r', 'S'][tmp_class(t) as usize]),
        L::Imm(x) => {
            let s = v.imm_i64(x);
            if i32::try_from(s).is_ok() {
                (4, 'i')
            } else {
                (5, 'I')
            }
        }
    }
}

/// A readable key for the selector case an instruction falls into.
pub fn selector_key(v: &BcView, i: usize) -> String {
    let inst = v.insts[i];
    let live = v.live[i];
    let name = match inst {
        I::Noop => return "noop".into(),
        I::Scan(_, s) => return format!("scan{}", if s < 0 { "L" } else if s > 0 { "R" } else { "0" }),
        I::Mov(s) => return format!("mov{}:live{}", if s < 0 { "L" } else { "R" }, ((live & 0xfff0).count_ones() > 0) as u8),
        I::Inp(_) => return format!("inp:saved{}", (live & 0xfff0).count_ones().min(3)),
        I::Out(_) => return format!("out:saved{}", (live & 0xfff0).count_ones().min(3)),
        I::BrZ(..) => return "brz".into(),
        I::BrNZ(..) => return "brnz".into(),
        I::Add(..) => "add",
        I::Sub(..) => "sub",
        I::Mul(..) => "mul",
        I::Copy(..) => "copy",
    };
    let (d, srcs) = operands(&inst);
    let d = d.unwrap();
    let mut key = String::from(name);
    key.push(' ');
    key.push(loc_class(v, d).1);
    for s in &srcs {
        key.push(loc_class(v, *s).1);
    }
    // aliasing
    let same = |a: L, b: L| match (a, b) {
        (L::Mem(x), L::Mem(y)) | (L::Mem(x), L::MemZero(y)) | (L::MemZero(x), L::Mem(y)) => x == y,
        (L::Tmp(x), L::Tmp(y)) => x == y,
        _ => false,
    };
    if !srcs.is_empty() && same(d, srcs[0]) {
        key.push_str(" d=a");
    }
    if srcs.len() > 1 && same(d, srcs[1]) {
        key.push_str(" d=b");
    }
    if srcs.len() > 1 && same(srcs[0], srcs[1]) {
        key.push_str(" a=b");
    }
    // scratch availability of register sources
    for (k, s) in srcs.iter().enumerate() {
        if let L::Tmp(t) = s {
            if *t < 11 && live & (1 << t) == 0 {
                key.push_str(if k == 0 { " a:dead" } else { " b:dead" });
            }
        }
    }
    key
}

/// The op kind of the bytecode interpreter this instruction selects (form coverage for C02).
pub fn bcint_key(v: &BcView, i: usize) -> String {
    let inst = v.insts[i];
    let cls = |l: L| match l {
        L::Mem(_) => "M".to_string(),
        L::MemZero(_) => "Z".to_string(),
        L::Tmp(0) => "r0".to_string(),
        L::Tmp(1) => "r1".to_string(),
        L::Tmp(_) => "T".to_string(),
        L::Imm(0) => "0".to_string(),
        L::Imm(1) => "1".to_string(),
        L::Imm(x) if x == v.mask() => "-1".to_string(),
        L::Imm(_) => "i".to_string(),
    };
    let cell = |l: L| match l {
        L::Mem(m) | L::MemZero(m) => Some(m),
        _ => None,
    };
    let alias = |d: L, a: L, b: L| {
        let mut s = String::new();
        if cell(a).is_some() && cell(a) == cell(b) {
            s.push_str(" a~b");
        }
        if cell(d).is_some() && cell(d) == cell(b) && d != a {
            s.push_str(" d~b");
        }
        s
    };
    match inst {
        I::Noop => "noop".into(),
        I::Scan(_, s) => format!("scan{} stride{}", if s < 0 { "L" } else if s > 0 { "R" } else { "0" }, s.unsigned_abs().min(4)),
        I::Mov(s) => format!("mov{}", if s < 0 { "L" } else { "R" }),
        I::Inp(_) => "inp".into(),
        I::Out(_) => "out".into(),
        I::BrZ(..) => "brz".into(),
        I::BrNZ(..) => "brnz".into(),
        I::Add(d, a, b) => format!("add {} {} {}{}{}", cls(d), cls(a), cls(b), if d == a { " inplace" } else { "" }, alias(d, a, b)),
        I::Sub(d, a, b) => format!("sub {} {} {}{}{}", cls(d), cls(a), cls(b), if d == a { " inplace" } else { "" }, alias(d, a, b)),
        I::Mul(d, a, b) => format!("mul {} {} {}{}{}", cls(d), cls(a), cls(b), if d == a { " inplace" } else { "" }, alias(d, a, b)),
        I::Copy(d, a) => format!("copy {} {}", cls(d), cls(a)),
    }
}
