//! Canonical Brainfuck reference interpreter ("spec"), written from the property text and
//! sharing no code with hpbf.
//!
//! * cells wrap modulo 2^bits, tape unbounded in both directions, all zero initially
//! * `,` stores the next input byte, or 0 at end of input
//! * `.` emits the low 8 bits of the cell
//! * every other character is a comment
//!
//! The only acceleration is run-length folding of `+ -` and `< >`.
//! Divergence is *proved* by exact recurrence of the machine state (Brent's algorithm on
//! (pc, pointer, tape, remaining input)), never guessed from a step count.

/// Event encoding: output byte b -> b; input byte b -> 0x100|b; input at EOF -> 0x200.
pub const EV_EOF: u16 = 0x200;
pub fn ev_out(b: u8) -> u16 {
    b as u16
}
pub fn ev_in(b: u8) -> u16 {
    0x100 | b as u16
}
pub fn ev_is_out(e: u16) -> bool {
    e < 0x100
}

#[derive(Clone, Copy, Debug, PartialEq)]
pub enum Status {
    Halted,
    /// The state after `at_step` steps recurred `period` steps later.
    Cycle { at_step: u64, period: u64, events_before: u64, events_per_period: u64 },
    /// Step cap reached without halting or proving a cycle.
    Cap,
}

#[derive(Clone, Debug)]
pub struct SpecRun {
    /// First `event_cap` events.
    pub events: Vec<u16>,
    /// Number of events produced in total (may exceed `events.len()`).
    pub total_events: u64,
    /// FNV fold over *all* events (same fold as the harness' log slots)
    pub ev_hash: u64,
    pub status: Status,
    /// Pointer excursion (min / max pointer position ever held).
    pub lo: i64,
    pub hi: i64,
    /// Lowest / highest cell ever written or read.
    pub steps: u64,
    pub backedges: u64,
    /// Number of times a loop body was entered or repeated.
    pub loop_iters: u64,
}

#[derive(Clone, Copy)]
pub struct SpecOpts {
    pub bits: u32,
    pub step_cap: u64,
    pub event_cap: usize,
    pub detect_cycles: bool,
}

#[derive(Clone, Copy, PartialEq, Debug)]
enum Op {
    Add(u64),
    Move(i64),
    In,
    Out,
    Jz(usize),
    Jnz(usize),
}

/// Reference bracket matcher. Returns Ok or (is_not_opened, char index).
pub fn check_brackets(code: &str) -> Result<(), (bool, usize)> {
    let mut stack = Vec::new();
    for (i, c) in code.chars().enumerate() {
        if c == '[' {
            stack.push(i);
        } else if c == ']' && stack.pop().is_none() {
            return Err((true, i));
        }
    }
    match stack.last() {
        Some(&i) => Err((false, i)),
        None => Ok(()),
    }
}

fn compile(code: &str) -> Option<Vec<Op>> {
    let mut ops: Vec<Op> = Vec::new();
    let mut stack = Vec::new();
    for c in code.chars() {
        match c {
            '+' | '-' => {
                let d = if c == '+' { 1u64 } else { u64::MAX };
                if let Some(Op::Add(x)) = ops.last_mut() {
                    *x = x.wrapping_add(d);
                } else {
                    ops.push(Op::Add(d));
                }
            }
            '>' | '<' => {
                let d = if c == '>' { 1i64 } else { -1 };
                if let Some(Op::Move(x)) = ops.last_mut() {
                    *x += d;
                } else {
                    ops.push(Op::Move(d));
                }
            }
            ',' => ops.push(Op::In),
            '.' => ops.push(Op::Out),
            '[' => {
                stack.push(ops.len());
                ops.push(Op::Jz(0));
            }
            ']' => {
                let open = stack.pop()?;
                ops.push(Op::Jnz(open + 1));
                let here = ops.len();
                ops[open] = Op::Jz(here);
            }
            _ => {}
        }
    }
    if stack.is_empty() {
        Some(ops)
    } else {
        None
    }
}

struct Tape {
    cells: Vec<u64>,
    /// index in `cells` of logical cell 0
    origin: i64,
}

impl Tape {
    fn new() -> Self {
        Tape { cells: vec![0; 64], origin: 32 }
    }
    #[inline]
    fn ensure(&mut self, pos: i64) -> usize {
        let idx = pos + self.origin;
        if idx >= 0 && (idx as usize) < self.cells.len() {
            return idx as usize;
        }
        self.grow(pos)
    }
    #[cold]
    fn grow(&mut self, pos: i64) -> usize {
        let idx = pos + self.origin;
        if idx < 0 {
            let add = ((-idx) as usize).max(self.cells.len());
            let mut n = vec![0u64; add];
            n.extend_from_slice(&self.cells);
            self.cells = n;
            self.origin += add as i64;
        } else {
            let need = idx as usize + 1;
            let newlen = need.max(self.cells.len() * 2);
            self.cells.resize(newlen, 0);
        }
        (pos + self.origin) as usize
    }
    #[inline]
    fn get(&self, pos: i64) -> u64 {
        let idx = pos + self.origin;
        if idx >= 0 && (idx as usize) < self.cells.len() {
            self.cells[idx as usize]
        } else {
            0
        }
    }
    fn same(&self, other: &Tape) -> bool {
        let lo = (-self.origin).min(-other.origin);
        let hi = (self.cells.len() as i64 - self.origin).max(other.cells.len() as i64 - other.origin);
        (lo..hi).all(|p| self.get(p) == other.get(p))
    }
    fn snapshot(&self) -> Tape {
        Tape { cells: self.cells.clone(), origin: self.origin }
    }
}

#[inline]
fn zmix(pos: i64, val: u64) -> u64 {
    if val == 0 {
        return 0;
    }
    let mut z = (pos as u64).wrapping_mul(0x9E3779B97F4A7C15) ^ val.wrapping_mul(0xD6E8FEB86659FD93);
    z = (z ^ (z >> 32)).wrapping_mul(0xD6E8FEB86659FD93);
    z ^ (z >> 29)
}

struct Snap {
    pc: usize,
    ptr: i64,
    inpos: usize,
    hash: u64,
    tape: Tape,
    step: u64,
    events: u64,
}

pub fn run(code: &str, input: &[u8], o: SpecOpts) -> Option<SpecRun> {
    let ops = compile(code)?;
    let mask: u64 = if o.bits == 64 { u64::MAX } else { (1u64 << o.bits) - 1 };
    let mut tape = Tape::new();
    let mut ptr: i64 = 0;
    let mut pc = 0usize;
    let mut inpos = 0usize;
    let mut r = SpecRun {
        events: Vec::new(),
        total_events: 0,
        ev_hash: 0xcbf29ce484222325,
        status: Status::Cap,
        lo: 0,
        hi: 0,
        steps: 0,
        backedges: 0,
        loop_iters: 0,
    };
    let mut hash = 0u64;
    let mut snap: Option<Snap> = None;
    let mut power = 1u64;
    let mut lam = 0u64;
    let mut cycle_found = false;
    let n = ops.len();
    while pc < n {
        if r.steps >= o.step_cap {
            return Some(r);
        }
        r.steps += 1;
        match ops[pc] {
            Op::Add(d) => {
                let i = tape.ensure(ptr);
                let old = tape.cells[i];
                let new = old.wrapping_add(d) & mask;
                tape.cells[i] = new;
                if o.detect_cycles {
                    hash ^= zmix(ptr, old) ^ zmix(ptr, new);
                }
                pc += 1;
            }
            Op::Move(d) => {
                ptr += d;
                if ptr < r.lo {
                    r.lo = ptr;
                }
                if ptr > r.hi {
                    r.hi = ptr;
                }
                pc += 1;
            }
            Op::In => {
                let i = tape.ensure(ptr);
                let old = tape.cells[i];
                let (new, ev) = if inpos < input.len() {
                    let b = input[inpos];
                    inpos += 1;
                    (b as u64, ev_in(b))
                } else {
                    (0, EV_EOF)
                };
                tape.cells[i] = new;
                if o.detect_cycles {
                    hash ^= zmix(ptr, old) ^ zmix(ptr, new);
                }
                r.total_events += 1;
                r.ev_hash = (r.ev_hash ^ ev as u64).wrapping_mul(0x100000001b3);
                if r.events.len() < o.event_cap {
                    r.events.push(ev);
                }
                pc += 1;
            }
            Op::Out => {
                let v = tape.get(ptr);
                r.total_events += 1;
                r.ev_hash = (r.ev_hash ^ ev_out(v as u8) as u64).wrapping_mul(0x100000001b3);
                if r.events.len() < o.event_cap {
                    r.events.push(ev_out(v as u8));
                }
                pc += 1;
            }
            Op::Jz(t) => {
                if tape.get(ptr) == 0 {
                    pc = t;
                } else {
                    r.loop_iters += 1;
                    pc += 1;
                }
            }
            Op::Jnz(t) => {
                r.backedges += 1;
                if tape.get(ptr) != 0 {
                    r.loop_iters += 1;
                    pc = t;
                    if o.detect_cycles && !cycle_found {
                        if let Some(s) = &snap {
                            let in_same = s.inpos == inpos || (s.inpos >= input.len() && inpos >= input.len());
                            if s.pc == pc && s.ptr == ptr && in_same && s.hash == hash && s.tape.same(&tape) {
                                let per_period = r.total_events - s.events;
                                r.status = Status::Cycle {
                                    at_step: s.step,
                                    period: r.steps - s.step,
                                    events_before: s.events,
                                    events_per_period: per_period,
                                };
                                cycle_found = true;
                                if per_period == 0 || r.events.len() >= o.event_cap {
                                    return Some(r);
                                }
                                // printing cycle: keep going to fill the event buffer
                            }
                        }
                        if !cycle_found {
                            lam += 1;
                            if lam == power || snap.is_none() {
                                snap = Some(Snap {
                                    pc,
                                    ptr,
                                    inpos,
                                    hash,
                                    tape: tape.snapshot(),
                                    step: r.steps,
                                    events: r.total_events,
                                });
                                if lam == power {
                                    power *= 2;
                                    lam = 0;
                                }
                            }
                        }
                    } else if cycle_found && r.events.len() >= o.event_cap {
                        return Some(r);
                    }
                } else {
                    pc += 1;
                }
            }
        }
    }
    if !cycle_found {
        r.status = Status::Halted;
    }
    Some(r)
}

pub fn fmt_events(ev: &[u16], max: usize) -> String {
    let mut s = String::new();
    for (i, &e) in ev.iter().enumerate() {
        if i >= max {
            s.push_str(&format!(" …(+{})", ev.len() - max));
            break;
        }
        if i > 0 {
            s.push(' ');
        }
        if e == EV_EOF {
            s.push_str("in:EOF");
        } else if e >= 0x100 {
            s.push_str(&format!("in:{:02x}", e & 0xff));
        } else {
            s.push_str(&format!("out:{:02x}", e));
        }
    }
    s
}
