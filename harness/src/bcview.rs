//! Width-erased copy of hpbf's bytecode, taken through the public fields of `bc::Program`.

use hpbf::bc::{self, Instr, Loc};
use hpbf::CellType;

#[derive(Clone, Copy, PartialEq, Debug)]
pub enum L {
    Mem(isize),
    MemZero(isize),
    Tmp(usize),
    /// zero-extended value
    Imm(u64),
}

#[derive(Clone, Copy, PartialEq, Debug)]
pub enum I {
    Noop,
    Scan(isize, isize),
    Mov(isize),
    Inp(isize),
    Out(isize),
    BrZ(isize, isize),
    BrNZ(isize, isize),
    Add(L, L, L),
    Sub(L, L, L),
    Mul(L, L, L),
    Copy(L, L),
}

#[derive(Clone, Debug)]
pub struct BcView {
    pub bits: u32,
    pub temps: usize,
    pub min: isize,
    pub max: isize,
    pub live: Vec<u16>,
    pub insts: Vec<I>,
}

fn loc<C: CellType>(l: Loc<C>) -> L {
    match l {
        Loc::Mem(m) => L::Mem(m),
        Loc::MemZero(m) => L::MemZero(m),
        Loc::Tmp(t) => L::Tmp(t),
        Loc::Imm(v) => L::Imm(v.into_u64()),
    }
}

pub fn view<C: CellType>(p: &bc::Program<C>) -> BcView {
    BcView {
        bits: C::BITS,
        temps: p.temps,
        min: p.min_accessed,
        max: p.max_accessed,
        live: p.live.clone(),
        insts: p
            .insts
            .iter()
            .map(|&i| match i {
                Instr::Noop => I::Noop,
                Instr::Scan(c, s) => I::Scan(c, s),
                Instr::Mov(s) => I::Mov(s),
                Instr::Inp(d) => I::Inp(d),
                Instr::Out(s) => I::Out(s),
                Instr::BrZ(c, o) => I::BrZ(c, o),
                Instr::BrNZ(c, o) => I::BrNZ(c, o),
                Instr::Add(a, b, c) => I::Add(loc(a), loc(b), loc(c)),
                Instr::Sub(a, b, c) => I::Sub(loc(a), loc(b), loc(c)),
                Instr::Mul(a, b, c) => I::Mul(loc(a), loc(b), loc(c)),
                Instr::Copy(a, b) => I::Copy(loc(a), loc(b)),
            })
            .collect(),
    }
}

impl BcView {
    pub fn mask(&self) -> u64 {
        if self.bits == 64 {
            u64::MAX
        } else {
            (1u64 << self.bits) - 1
        }
    }
    /// sign-extended immediate as the JIT sees it
    pub fn imm_i64(&self, v: u64) -> i64 {
        match self.bits {
            8 => v as u8 as i8 as i64,
            16 => v as u16 as i16 as i64,
            32 => v as u32 as i32 as i64,
            _ => v as i64,
        }
    }
}

/// Reads and writes of an instruction: (dst, srcs)
pub fn operands(i: &I) -> (Option<L>, Vec<L>) {
    match *i {
        I::Add(d, a, b) | I::Sub(d, a, b) | I::Mul(d, a, b) => (Some(d), vec![a, b]),
        I::Copy(d, a) => (Some(d), vec![a]),
        _ => (None, vec![]),
    }
}
