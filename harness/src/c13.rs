//! C13 — compilation is total, deterministic and leaves executors reusable.

use std::collections::BTreeMap;
use std::panic::{catch_unwind, AssertUnwindSafe};

use hpbf::exec::{BaseJitCompiler, BcInterpreter, Executable, Executor, InplaceInterpreter, IrInterpreter};
use hpbf::runtime::Context;
use hpbf::{bc, ir, CellType};

use crate::alloc;
use crate::checks::{gen_case, load_corpus, Case, Corpus};
use crate::engine::Tally;
use crate::gen::Family;
use crate::json::{self, Obj};
use crate::rng::{fnv64, Rng};
use crate::run::Backend;
use crate::sys::{self, Fault, LogReader, LogWriter, Slot};
use crate::Args;

/// All artefacts of one (source, width, level): hashes of the Debug renderings and machine code.
fn artefacts<C: CellType>(code: &str, level: u32) -> Result<[u64; 5], String> {
    let r = catch_unwind(AssertUnwindSafe(|| {
        let p = ir::Program::<C>::parse(code).map_err(|e| format!("parse error {:?}", e.kind))?;
        let p = p.optimize(level);
        let ir_h = fnv64(format!("{p:?}").as_bytes());
        let b2 = bc::CodeGen::translate(&p, 2, true);
        let b11 = bc::CodeGen::translate(&p, 11, false);
        let b2_h = fnv64(format!("{b2:?}").as_bytes());
        let b11_h = fnv64(format!("{b11:?}").as_bytes());
        let jit = BaseJitCompiler::<C>::create(code, level).map_err(|e| format!("jit create error {:?}", e.kind))?;
        let mc_h = fnv64(&jit.print_mc(false, true));
        let mc2_h = fnv64(&jit.print_mc(true, false)) ^ fnv64(&jit.print_mc(true, true)).rotate_left(1) ^ fnv64(&jit.print_mc(false, false)).rotate_left(2);
        // executors hold exactly what translate produces
        let bci = BcInterpreter::<C>::create(code, level).map_err(|e| format!("bcint create error {:?}", e.kind))?;
        let held2 = fnv64(format!("{:?}", bci.verif_bytecode()).as_bytes());
        let held11 = fnv64(format!("{:?}", jit.verif_bytecode()).as_bytes());
        if held2 != b2_h {
            return Err("bytecode held by BcInterpreter differs from translate(ir, 2, true)".to_string());
        }
        if held11 != b11_h {
            return Err("bytecode held by BaseJitCompiler differs from translate(ir, 11, false)".to_string());
        }
        let _ = IrInterpreter::<C>::create(code, level).map_err(|e| format!("irint create error {:?}", e.kind))?;
        Ok([ir_h, b2_h, b11_h, mc_h, mc2_h])
    }));
    match r {
        Ok(x) => x,
        Err(p) => {
            let msg = p.downcast_ref::<String>().cloned().or_else(|| p.downcast_ref::<&str>().map(|s| s.to_string())).unwrap_or_default();
            Err(format!("panic during compilation: {msg}"))
        }
    }
}

fn artefacts_w(code: &str, bits: u32, level: u32) -> Result<[u64; 5], String> {
    match bits {
        8 => artefacts::<u8>(code, level),
        16 => artefacts::<u16>(code, level),
        32 => artefacts::<u32>(code, level),
        _ => artefacts::<u64>(code, level),
    }
}

fn new_slot() -> Box<Slot> {
    unsafe {
        let l = std::alloc::Layout::new::<Slot>();
        let p = std::alloc::alloc_zeroed(l) as *mut Slot;
        let mut b = Box::from_raw(p);
        b.ev_hash = 0xcbf29ce484222325;
        b
    }
}

/// Execute one executor several times on fresh contexts, in mixed modes; the plain runs must agree.
fn reuse<C: CellType>(backend: Backend, code: &str, level: u32, input: &[u8], canon: (u64, u64), limited_first: bool) -> Result<u64, String> {
    let exec: Box<dyn Executable<C> + '_> = match backend {
        Backend::Inplace => Box::new(InplaceInterpreter::<C>::create(code, level).map_err(|_| "create")?),
        Backend::IrInt => Box::new(IrInterpreter::<C>::create(code, level).map_err(|_| "create")?),
        Backend::BcInt => Box::new(BcInterpreter::<C>::create(code, level).map_err(|_| "create")?),
        Backend::Jit => Box::new(BaseJitCompiler::<C>::create(code, level).map_err(|_| "create")?),
    };
    // (mode, budget, fault)
    // two orders: an executor must not remember which entry point was used first
    let plan: [(u8, usize, Option<u64>); 6] = if limited_first {
        [(1, 3, None), (0, 0, None), (1, 7, None), (0, 0, Some(1)), (1, 1 << 40, None), (0, 0, None)]
    } else {
        [(0, 0, None), (1, 7, None), (0, 0, Some(1)), (0, 0, None), (1, 1 << 40, None), (0, 0, None)]
    };
    let mut plain: Vec<(u64, u64)> = Vec::new();
    let mut limited_full: Option<(u64, u64, bool)> = None;
    let mut execs = 0u64;
    for (mode, budget, fault) in plan {
        let mut slot = new_slot();
        let sp: *mut Slot = &mut *slot;
        let f = fault.map(|at| Fault::plain(at, false));
        let mut cxt = Context::<C>::new(
            Some(Box::new(LogReader { slot: sp, data: input.to_vec(), pos: 0, fault: f })),
            Some(Box::new(LogWriter { slot: sp, fault: f })),
        );
        let fin = if mode == 0 {
            exec.execute(&mut cxt).map(|_| true)
        } else {
            cxt.budget = budget;
            exec.execute_limited(&mut cxt)
        };
        drop(cxt);
        execs += 1;
        let fin = fin.map_err(|_| "execute returned Err".to_string())?;
        if mode == 0 && fault.is_none() {
            plain.push((slot.n_events, slot.ev_hash));
        }
        if mode == 1 && budget > 1000 {
            limited_full = Some((slot.n_events, slot.ev_hash, fin));
        }
    }
    if plain.windows(2).any(|w| w[0] != w[1]) {
        return Err(format!("repeated plain executions of one executor differ: {:?}", plain));
    }
    if plain[0] != canon {
        return Err(format!(
            "plain execution on a reused executor (order: {}) produced {} events (hash {:x}), the canonical run {} (hash {:x})",
            if limited_first { "limited first" } else { "plain first" },
            plain[0].0, plain[0].1, canon.0, canon.1
        ));
    }
    if let Some((n, h, fin)) = limited_full {
        if fin && (n, h) != plain[0] {
            return Err("an unlimited-budget execution of the same executor differs from the plain executions".to_string());
        }
    }
    Ok(execs)
}

fn reuse_w(backend: Backend, code: &str, bits: u32, level: u32, input: &[u8], canon: (u64, u64), limited_first: bool) -> Result<u64, String> {
    let r = catch_unwind(AssertUnwindSafe(|| match bits {
        8 => reuse::<u8>(backend, code, level, input, canon, limited_first),
        16 => reuse::<u16>(backend, code, level, input, canon, limited_first),
        32 => reuse::<u32>(backend, code, level, input, canon, limited_first),
        _ => reuse::<u64>(backend, code, level, input, canon, limited_first),
    }));
    match r {
        Ok(x) => x,
        Err(_) => Err("panic during repeated execution".to_string()),
    }
}

fn c13_gen(seed: u64, idx: u64, corpus: &Corpus, thorough: bool) -> Case {
    let mut rng = Rng::derive(seed, 0xC13, idx);
    if (idx as usize) < corpus.items.len() {
        let it = &corpus.items[idx as usize];
        return Case { code: it.0.clone(), bits: *rng.pick(&[8u32, 16, 32, 64]), family: Family::Corpus, fixed_input: it.1.clone() };
    }
    if rng.chance(1, 12) {
        // moderately deep nesting
        let d = rng.range(20, 300) as usize;
        let body = *rng.pick(&["-", ">+<-", "->+<", "", ".-"]);
        return Case { code: format!("+{}{}{}.", "[".repeat(d), body, "]".repeat(d)), bits: *rng.pick(&[8u32, 16, 32, 64]), family: Family::Grammar, fixed_input: None };
    }
    gen_case("C13", &mut rng, corpus, thorough)
}

/// One program: totality + in-process determinism (+ optionally reuse). Returns artefact hashes.
fn c13_case(seed: u64, idx: u64, corpus: &Corpus, thorough: bool, table: &mut BTreeMap<String, [u64; 5]>) -> Option<String> {
    let case = c13_gen(seed, idx, corpus, thorough);
    let sh = sys::shared();
    sh.scratch[1] += 1;
    let levels: Vec<u32> = if idx % 3 == 0 { vec![0, 1, 2, 3] } else { vec![(idx % 4) as u32, 3] };
    for &level in &levels {
        let a = match artefacts_w(&case.code, case.bits, level) {
            Ok(a) => a,
            Err(e) => return Some(format!("L{level}: {e}")),
        };
        sh.scratch[2] += 1;
        // recompile later (other compilations in between) and compare
        let key = format!("{:016x}:{}:{}", fnv64(case.code.as_bytes()), case.bits, level);
        if let Some(prev) = table.get(&key) {
            if *prev != a {
                return Some(format!("L{level}: artefacts differ between two compilations in one process (ir/bc2/bc11/mc/mc-variants): {:x?} vs {:x?}", prev, a));
            }
        }
        table.insert(key, a);
        // immediate recompile
        match artefacts_w(&case.code, case.bits, level) {
            Ok(b) if b == a => {}
            Ok(b) => return Some(format!("L{level}: artefacts differ between two consecutive compilations: {:x?} vs {:x?}", a, b)),
            Err(e) => return Some(format!("L{level}: second compilation failed: {e}")),
        }
        sh.scratch[3] += 1;
    }
    // reuse (only programs that stop quickly: run with small input and an output cap via budget)
    if idx % 2 == 0 {
        let input: Vec<u8> = vec![2, 0, 3, 1];
        let sp = crate::spec::run(&case.code, &input, crate::spec::SpecOpts { bits: case.bits, step_cap: 50_000, event_cap: sys::EV_CAP, detect_cycles: false });
        if let Some(s) = sp.as_ref().filter(|s| s.status == crate::spec::Status::Halted) {
            let canon = (s.total_events, s.ev_hash);
            for b in [Backend::Inplace, Backend::IrInt, Backend::BcInt, Backend::Jit] {
                match reuse_w(b, &case.code, case.bits, levels[0], &input, canon, idx % 4 == 0) {
                    Ok(n) => sh.scratch[4] += n,
                    Err(e) => return Some(format!("L{} {}: {e}", levels[0], b.name())),
                }
            }
            sh.scratch[5] += 1;
        }
    }
    None
}

// ---- growth families ----------------------------------------------------------------------------

pub fn family(name: &str, n: usize) -> String {
    match name {
        "nested_multiply" => {
            // n nested counted loops
            let mut s = String::new();
            for _ in 0..n {
                s.push_str("++[>");
            }
            s.push('+');
            for _ in 0..n {
                s.push_str("<-]");
            }
            s.push_str(&">".repeat(n));
            s.push('.');
            s
        }
        "squarings" => {
            // repeated x = x*x style accumulation as in the repo's very_large_polynomial test
            let mut s = String::from(",>,>,<<");
            for _ in 0..n {
                s.push_str("[>[>+>+<<-]>>[<<+>>-]<<<-]>[<+>-]<");
            }
            s.push('.');
            s
        }
        "rotation" => {
            // rotate the values of n cells through a temporary, inside an input-counted loop
            let mut s = String::new();
            for _ in 0..n {
                s.push_str("+>");
            }
            s.push_str(",[");
            s.push_str(&"<".repeat(n));
            // t = x0
            s.push_str(&format!("[-{}+{}]", ">".repeat(n + 1), "<".repeat(n + 1)));
            for _ in 0..n - 1 {
                s.push_str(">[-<+>]");
            }
            // x_{n-1} = t
            s.push_str(&format!(">>[-<<+>>]<"));
            s.push_str("-]");
            s.push_str(&"<".repeat(n));
            s.push_str("[.>]");
            s
        }
        "copies_into_one" => {
            // n sequential copies (via temp) of distinct cells into one accumulator
            let mut s = String::new();
            for _ in 0..n {
                s.push_str(",>");
            }
            // acc at n, tmp at n+1
            for i in 0..n {
                let d = n - i;
                s.push_str(&"<".repeat(d));
                s.push_str(&format!("[-{}+>+<{}]", ">".repeat(d), "<".repeat(d)));
                s.push_str(&">".repeat(d + 1));
                s.push_str(&format!("[-{}+{}]", "<".repeat(d + 1), ">".repeat(d + 1)));
                s.push('<');
            }
            s.push('.');
            s
        }
        "straight_line" => "+>-<.>".repeat(n),
        "sequential_loops" => "+[->+<]>".repeat(n) + ".",
        "nested_ifs" => {
            let mut s = String::from(",");
            for _ in 0..n {
                s.push_str("[>+");
            }
            for _ in 0..n {
                s.push_str("[-]<]");
            }
            s.push('.');
            s
        }
        // chains: n stages, each moving three cells to the right; every stage multiplies two
        // values derived from the previous stage's result. `chain_<stage>` at top level,
        // `loopchain_<stage>` inside an input-driven loop that restores the pointer.
        _ if name.starts_with("chain_") || name.starts_with("loopchain_") => {
            let in_loop = name.starts_with("loopchain_");
            let stage = match &name[name.find('_').unwrap() + 1..] {
                // x -> two copies -> product of the copies (a square through distinct cells)
                "square" => "[->+>+<<]>[->[->+>+<<]>>[-<<+>>]<<<]>>",
                // the same, each result printed (forces every stage to be emitted)
                "square_out" => "[->+>+<<]>[->[->+>+<<]>>[-<<+>>]<<<]>>.",
                // the same with an increment between the stages (sums, not monomials)
                "square_inc" => "+[->+>+<<]>[->[->+>+<<]>>[-<<+>>]<<<]>>",
                // r -> r * (fresh input + 1)
                "times_input" => ">,+<[->[->+>+<<]>>[-<<+>>]<<<]>>",
                // x -> x * x * x through three copies
                "cube" => "[->+>+>+<<<]>[->[->[->+>+<<]>>[-<<+>>]<<<]>>[-<+>]<<<]>[-]>[-]>[-<<+>>]<<",
                _ => panic!("family"),
            };
            let mut s = String::from(if in_loop { ",[" } else { "," });
            for _ in 0..n {
                s.push_str(stage);
            }
            if in_loop {
                s.push_str("[-]");
                let net: i32 = stage.bytes().map(|b| (b == b'>') as i32 - (b == b'<') as i32).sum();
                s.push_str(&"<".repeat(net as usize * n));
                s.push_str(",]");
            } else {
                s.push('.');
            }
            s
        }
        _ => panic!("family"),
    }
}

pub const FAMILIES: &[&str] = &[
    "nested_multiply",
    "squarings",
    "rotation",
    "copies_into_one",
    "straight_line",
    "sequential_loops",
    "nested_ifs",
    "chain_square",
    "chain_square_out",
    "chain_square_inc",
    "chain_times_input",
    "chain_cube",
    "loopchain_square",
    "loopchain_square_out",
    "loopchain_square_inc",
    "loopchain_times_input",
    "loopchain_cube",
];

/// Random chain family `idx` of `seed`: (description, stage, shift, in_loop).
pub fn random_family(seed: u64, idx: u64) -> (String, usize, bool) {
    let mut rng = Rng::derive(seed, 1313, idx);
    let (stage, shift) = crate::gen::chain_stage(&mut rng);
    (stage, shift, rng.chance(1, 2))
}

fn chain_program(stage: &str, shift: usize, in_loop: bool, n: usize) -> String {
    let mut s = String::from(if in_loop { ",>,>,<<[" } else { ",>,>,<<" });
    for _ in 0..n {
        s.push_str(stage);
    }
    if in_loop {
        s.push_str(&"<".repeat(shift * n));
        s.push_str(",]");
    } else {
        s.push_str(".>.>.");
    }
    s
}

pub const FAMILY_SIZES: &[usize] = &[4, 8, 12, 16, 24, 32, 48, 64];
pub const RANDOM_FAMILY_SIZES: &[usize] = &[4, 8, 16, 32];
/// address-space limit and watchdog for one family compilation
const FAMILY_MEM: u64 = 6 << 30;
const FAMILY_SECS: u32 = 60;

/// Measure one family over FAMILY_SIZES. Returns (costs, first failure).
/// Work measures are deterministic: allocator calls and allocated bytes of building all executors.
/// Envelope: growing n by a factor r may grow either measure by at most r^5 (plus a fixed slack),
/// i.e. any polynomial up to degree 5 passes, 2^n does not. One step above the envelope alone is not a violation (see below).
pub fn measure_family(fam: &str) -> (Vec<(usize, u64, u64, u64)>, Option<String>) {
    measure(fam, FAMILY_SIZES, &|n| family(fam, n))
}

pub fn measure_random_family(seed: u64, idx: u64) -> (Vec<(usize, u64, u64, u64)>, Option<String>) {
    let (stage, shift, in_loop) = random_family(seed, idx);
    let name = format!("random chain {seed}/{idx} (stage {stage:?} shift {shift}{})", if in_loop { " in a loop" } else { "" });
    measure(&name, RANDOM_FAMILY_SIZES, &|n| chain_program(&stage, shift, in_loop, n))
}

fn measure(fam: &str, sizes: &[usize], prog: &dyn Fn(usize) -> String) -> (Vec<(usize, u64, u64, u64)>, Option<String>) {
    let mut costs: Vec<(usize, u64, u64, u64)> = Vec::new();
    for &n in sizes {
        let code = prog(n);
        let r = crate::props::batched(0, 1, 1, 0, |_| {
            sys::set_alarm(FAMILY_SECS);
            unsafe {
                let lim = libc::rlimit { rlim_cur: FAMILY_MEM, rlim_max: FAMILY_MEM };
                libc::setrlimit(libc::RLIMIT_AS, &lim);
            }
            match compile_cost(&code, 8, 3) {
                Ok((calls, bytes, secs)) => {
                    let sh = sys::shared();
                    sh.scratch[10] = calls;
                    sh.scratch[11] = (secs * 1e6) as u64;
                    sh.scratch[12] = bytes;
                    None
                }
                Err(e) => Some(e),
            }
        });
        if let Some((_, why)) = r.first() {
            let why = why.replace("watchdog (120 s)", &format!("watchdog ({FAMILY_SECS} s)"));
            return (costs, Some(format!("family {fam}({n}), {} source characters: building the executors did not complete within {FAMILY_SECS} s and {} GiB of address space: {why}", code.len(), FAMILY_MEM >> 30)));
        }
        let sh = sys::shared();
        costs.push((n, sh.scratch[10], sh.scratch[12], sh.scratch[11]));
    }
    // A single step above the envelope followed by flat cost is a bounded one-off (the optimiser's
    // size guards start to act at some n): not growth. Super-polynomial growth keeps exceeding the
    // envelope, so two consecutive steps above it are required (or the failure to finish, above).
    let mut prev: Option<String> = None;
    for w in costs.windows(2) {
        let ((n0, c0, b0, _), (n1, c1, b1, _)) = (w[0], w[1]);
        let r5 = (n1 as f64 / n0 as f64).powi(5);
        let mut over = None;
        if c1 as f64 > r5 * c0 as f64 + 20_000.0 {
            over = Some(format!("allocator calls grow from {c0} (n={n0}) to {c1} (n={n1}), more than (n1/n0)^5 = {r5:.1}x + 20000"));
        } else if b1 as f64 > r5 * b0 as f64 + (4u64 << 20) as f64 {
            over = Some(format!("allocated bytes grow from {b0} (n={n0}) to {b1} (n={n1}), more than (n1/n0)^5 = {r5:.1}x + 4 MiB"));
        }
        match (&prev, &over) {
            (Some(a), Some(b)) => return (costs.clone(), Some(format!("family {fam}: two consecutive steps above the polynomial envelope: {a}; then {b}"))),
            _ => prev = over,
        }
    }
    (costs, None)
}

/// Allocator calls needed to build all executors for `code` (deterministic work measure).
fn compile_cost(code: &str, bits: u32, level: u32) -> Result<(u64, u64, f64), String> {
    let a0 = alloc::counters();
    let t0 = std::time::Instant::now();
    artefacts_w(code, bits, level)?;
    let a1 = alloc::counters();
    Ok((a1.0 - a0.0, a1.2 - a0.2, t0.elapsed().as_secs_f64()))
}

pub fn c13(args: &Args) -> i32 {
    let corpus = load_corpus(&args.corpus);
    let mut t = Tally::new("C13", &args.replay_dir);
    let start = std::time::Instant::now();
    let per = args.count;
    // every shard compiles the same shared index range [0, shared) plus its own slice, so artefact
    // hashes of the shared range can be joined across processes by check.py
    let shared_n = args.get_u64("shared", 300).min(per);
    let mut found: Vec<(u64, String)> = Vec::new();
    let mut shared_table: BTreeMap<String, [u64; 5]> = BTreeMap::new();
    {
        // shared range: run in-process in a forked child per chunk, but the table must come back:
        // children write "key hash..." lines to a per-shard file.
        let art_path = format!("{}.artefacts", args.out);
        let _ = std::fs::remove_file(&art_path);
        let chunks: Vec<(u64, u64)> = (0..shared_n).step_by(100).map(|a| (a, (a + 100).min(shared_n))).collect();
        // Every worker compiles the same shared programs but in its own order (rotated by a
        // shard-specific amount, reversed on odd shards), so that what was compiled earlier in the
        // same process differs between workers: an artefact that depends on compilation history
        // (a cache keyed too coarsely, a static counter) then differs in the cross-process join.
        let perm: Vec<u64> = {
            let n = shared_n.max(1);
            let rot = (args.shard as u64 * 37 + args.seed % 11) % n;
            let mut v: Vec<u64> = (0..shared_n).map(|k| (k + rot) % n).collect();
            if args.shard % 2 == 1 {
                v.reverse();
            }
            v
        };
        for (a, b) in chunks {
            let f = crate::props::batched(a, b, 100, 0, |k| {
                let i = perm[k as usize];
                let mut table = BTreeMap::new();
                let r = c13_case(args.seed, i, &corpus, args.thorough, &mut table);
                use std::io::Write;
                if let Ok(mut fh) = std::fs::OpenOptions::new().create(true).append(true).open(&art_path) {
                    for (k, v) in table {
                        let _ = writeln!(fh, "{} {:016x} {:016x} {:016x} {:016x} {:016x}", k, v[0], v[1], v[2], v[3], v[4]);
                    }
                }
                r
            });
            found.extend(f.into_iter().map(|(k, why)| (perm[k as usize], why)));
        }
        if let Ok(s) = std::fs::read_to_string(&art_path) {
            for l in s.lines() {
                let p: Vec<&str> = l.split(' ').collect();
                if p.len() == 6 {
                    let v: Vec<u64> = p[1..].iter().map(|x| u64::from_str_radix(x, 16).unwrap_or(0)).collect();
                    shared_table.insert(p[0].to_string(), [v[0], v[1], v[2], v[3], v[4]]);
                }
            }
        }
        let _ = std::fs::remove_file(&art_path);
    }
    // own slice: one child per 200 programs, with one table per child (compilations in between)
    let from = 1_000_000 + args.shard * per;
    let to = from + per;
    let mut a = from;
    while a < to {
        let b = (a + 200).min(to);
        let f = crate::props::batched(a, b, 200, 0, |i| {
            // the table lives for the whole batch: later recompilations see earlier ones in between
            thread_local! { static TABLE: std::cell::RefCell<BTreeMap<String, [u64; 5]>> = std::cell::RefCell::new(BTreeMap::new()); }
            TABLE.with(|tb| {
                let mut tb = tb.borrow_mut();
                let r = c13_case(args.seed, i, &corpus, args.thorough, &mut tb);
                // revisit an earlier program of this batch (recompile after other compilations)
                if r.is_none() && i > a + 3 && i % 5 == 0 {
                    return c13_case(args.seed, a + (i - a) / 2, &corpus, args.thorough, &mut tb);
                }
                r
            })
        });
        found.extend(f);
        a = b;
    }
    let sh = sys::shared();
    t.inc("programs", sh.scratch[1]);
    t.inc("evaluations", sh.scratch[2] + sh.scratch[3]);
    t.inc("compilations_all_executors", sh.scratch[2] + sh.scratch[3]);
    t.inc("recompile_comparisons", sh.scratch[3]);
    t.inc("repeated_executions", sh.scratch[4]);
    t.inc("executors_reused", sh.scratch[5] * 4);
    for i in from..to.min(from + 2000) {
        let c = c13_gen(args.seed, i, &corpus, args.thorough);
        if c.code.contains('[') {
            t.distinct.insert(fnv64(format!("{}|{}", c.code, c.bits).as_bytes()));
        }
    }
    // growth families: shard s measures families s, s + nshards, ...
    let mut fam_fail: Vec<(String, String)> = Vec::new();
    let nsh = (args.nshards as usize).max(1);
    for (k, fam) in FAMILIES.iter().enumerate() {
        if k % nsh != args.shard as usize {
            continue;
        }
        let (costs, fail) = measure_family(fam);
        t.inc("growth_ratios_checked", costs.len().saturating_sub(1) as u64);
        t.inc("families_measured", 1);
        if let Some(why) = fail {
            fam_fail.push((fam.to_string(), why));
        }
        let cs: Vec<String> = costs.iter().map(|(n, c, b, us)| format!("{{\"n\":{n},\"alloc_calls\":{c},\"alloc_bytes\":{b},\"micros\":{us}}}")).collect();
        t.sample(Obj::new().s("family", fam).s("example_n4", &family(fam, 4)).raw("costs", &json::arr(&cs)).done());
    }
    // random chain families: a generated stage repeated n times, at top level or in a loop
    let nrand = args.get_u64("rand-families", if args.thorough { 1500 } else { 150 });
    for k in 0..nrand {
        let idx = args.shard as u64 + k * nsh as u64;
        let (costs, fail) = measure_random_family(args.seed, idx);
        t.inc("growth_ratios_checked", costs.len().saturating_sub(1) as u64);
        t.inc("random_families_measured", 1);
        let (stage, shift, in_loop) = random_family(args.seed, idx);
        t.distinct.insert(fnv64(format!("fam|{stage}|{shift}|{in_loop}").as_bytes()));
        if let Some(why) = fail {
            t.inc("violated", 1);
            t.violation(&format!("random chain {stage} {shift} {in_loop}"), Obj::new().s("kind", "growth").s("family", "random").n("case_seed", args.seed).n("index", idx).s("stage", &stage).n("shift", shift as u64).s("in_loop", if in_loop { "yes" } else { "no" }).s("program_n8", &chain_program(&stage, shift, in_loop, 8)).s("why", &why));
        } else if k < 2 {
            let cs: Vec<String> = costs.iter().map(|(n, c, b, us)| format!("{{\"n\":{n},\"alloc_calls\":{c},\"alloc_bytes\":{b},\"micros\":{us}}}")).collect();
            t.sample(Obj::new().s("family", "random").s("stage", &stage).n("shift", shift as u64).s("in_loop", if in_loop { "yes" } else { "no" }).raw("costs", &json::arr(&cs)).done());
        }
    }
    for (fam, why) in fam_fail {
        t.inc("violated", 1);
        t.violation(&format!("family {fam}"), Obj::new().s("kind", "growth").s("family", &fam).s("program_n8", &family(&fam, 8)).n("case_seed", args.seed).s("why", &why));
    }
    for (i, why) in found {
        t.inc("violated", 1);
        let (code, bits) = if i == u64::MAX {
            (String::new(), 0)
        } else {
            let c = c13_gen(args.seed, i, &corpus, args.thorough);
            (c.code, c.bits)
        };
        let what: String = why.split(':').nth(1).unwrap_or(&why).trim().chars().take(40).collect();
        t.violation(&what, Obj::new().s("kind", "compile").s("program", &code).n("bits", bits).n("case_seed", args.seed).n("index", i).s("why", &why));
    }
    let arts: Vec<String> = shared_table.iter().map(|(k, v)| format!("[{},\"{:016x}{:016x}{:016x}{:016x}{:016x}\"]", json::esc(k), v[0], v[1], v[2], v[3], v[4])).collect();
    t.write(&args.out, &[("wall_s".to_string(), format!("{:.2}", start.elapsed().as_secs_f64())), ("artefacts".to_string(), json::arr(&arts))]);
    if t.violations.is_empty() {
        0
    } else {
        1
    }
}

pub fn c13_replay(args: &Args) -> i32 {
    let code = args.get("code").unwrap_or("").to_string();
    let bits = args.get_u64("bits", 8) as u32;
    let mut bad = 0;
    for level in 0..4 {
        let a = artefacts_w(&code, bits, level);
        let b = artefacts_w(&code, bits, level);
        match (a, b) {
            (Ok(x), Ok(y)) if x == y => {}
            (x, y) => {
                println!("L{level}: {:?} vs {:?}", x, y);
                bad += 1;
            }
        }
        for be in [Backend::Inplace, Backend::IrInt, Backend::BcInt, Backend::Jit] {
            let sp = crate::spec::run(&code, &[2, 0, 3, 1], crate::spec::SpecOpts { bits, step_cap: 50_000, event_cap: sys::EV_CAP, detect_cycles: false });
            let canon = match sp {
                Some(s) if s.status == crate::spec::Status::Halted => (s.total_events, s.ev_hash),
                _ => continue,
            };
            for lf in [false, true] {
                if let Err(e) = reuse_w(be, &code, bits, level, &[2, 0, 3, 1], canon, lf) {
                    if e != "create" {
                        println!("L{level} {}: {e}", be.name());
                        bad += 1;
                    }
                }
            }
            if let Err(e) = Ok::<u64, String>(0) {
                if e != "create" {
                    println!("L{level} {}: {e}", be.name());
                    bad += 1;
                }
            }
        }
    }
    if bad > 0 {
        println!("VIOLATION property=C13 replay={}", args.get("replay-path").unwrap_or("-"));
        1
    } else {
        println!("held");
        0
    }
}

/// `hv c13growth --family <name>|all`: re-measure growth families (replay of a "growth" violation).
pub fn c13_growth(args: &Args) -> i32 {
    let which = args.get("family").unwrap_or("all").to_string();
    let mut bad = 0;
    if which == "random" {
        // --seed S --index I [--count K]: re-measure random chain families I .. I+K
        let from = args.get_u64("index", 0);
        for idx in from..from + args.get_u64("count", 1) {
            let (costs, fail) = measure_random_family(args.seed, idx);
            if args.get_u64("count", 1) == 1 {
                println!("{:?}: {:?}", random_family(args.seed, idx), costs);
            }
            if let Some(why) = fail {
                println!("{idx}: {why}");
                bad += 1;
            }
        }
    }
    for fam in FAMILIES {
        if which != "all" && which != *fam {
            continue;
        }
        let (costs, fail) = measure_family(fam);
        println!("{fam}: {:?}", costs);
        if let Some(why) = fail {
            println!("{why}");
            bad += 1;
        }
    }
    if bad > 0 {
        println!("VIOLATION property=C13 replay={}", args.get("replay-path").unwrap_or("-"));
        1
    } else {
        println!("held");
        0
    }
}
