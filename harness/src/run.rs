//! Drive the real hpbf back ends through their public API, observing only the four doors:
//! the Read object, the Write object, return values, and the heap.

use std::panic::{catch_unwind, AssertUnwindSafe};

use hpbf::exec::{BcInterpreter, Executable, Executor, InplaceInterpreter, IrInterpreter};
#[cfg(not(miri))]
use hpbf::exec::BaseJitCompiler;
use hpbf::runtime::Context;
use hpbf::{CellType, ErrorKind};

use crate::alloc;
use crate::bcview::{self, BcView};
use crate::sys::{Fault, LogReader, LogWriter, Slot, ST_CREATE_ERR, ST_PANICKED, ST_RETURNED, ST_RUNNING};

#[derive(Clone, Copy, PartialEq, Eq, Debug, Hash)]
pub enum Backend {
    Inplace,
    IrInt,
    BcInt,
    Jit,
}

impl Backend {
    pub fn name(self) -> &'static str {
        match self {
            Backend::Inplace => "inplace",
            Backend::IrInt => "irint",
            Backend::BcInt => "bcint",
            Backend::Jit => "basejit",
        }
    }
    pub fn parse(s: &str) -> Option<Self> {
        Some(match s {
            "inplace" => Backend::Inplace,
            "irint" => Backend::IrInt,
            "bcint" => Backend::BcInt,
            "basejit" | "jit" => Backend::Jit,
            _ => return None,
        })
    }
}

#[derive(Clone, Copy, Debug, PartialEq)]
pub enum Mode {
    Exec,
    Limited(usize),
    /// execute_unsafe on a context pre-grown to [lo, hi)
    Unsafe { lo: isize, hi: isize },
}

#[derive(Clone, Copy, Debug, PartialEq)]
pub struct Cfg {
    pub backend: Backend,
    pub bits: u32,
    pub level: u32,
    pub mode: Mode,
}

impl Cfg {
    pub fn describe(&self) -> String {
        let m = match self.mode {
            Mode::Exec => "exec".to_string(),
            Mode::Limited(b) => format!("limited({b})"),
            Mode::Unsafe { lo, hi } => format!("unsafe[{lo},{hi})"),
        };
        format!("{}/i{}/O{}/{}", self.backend.name(), self.bits, self.level, m)
    }
}

#[derive(Clone, Debug)]
pub struct Io {
    /// None: no input object at all
    pub input: Option<Vec<u8>>,
    pub has_output: bool,
    pub fault: Option<Fault>,
}

impl Io {
    pub fn plain(input: &[u8]) -> Self {
        Io { input: Some(input.to_vec()), has_output: true, fault: None }
    }
}

pub const FLAG_FINISHED: u32 = 1;
pub const FLAG_ERR: u32 = 2;

/// Run one configuration, writing everything observed into `slot`.
/// `on_bc` receives the bytecode the executor holds (bcint / basejit only).
pub fn run_cfg(cfg: &Cfg, code: &str, io: &Io, slot: &mut Slot, on_bc: &mut dyn FnMut(&BcView)) {
    match cfg.bits {
        8 => run_typed::<u8>(cfg, code, io, slot, on_bc),
        16 => run_typed::<u16>(cfg, code, io, slot, on_bc),
        32 => run_typed::<u32>(cfg, code, io, slot, on_bc),
        64 => run_typed::<u64>(cfg, code, io, slot, on_bc),
        _ => panic!("bits"),
    }
}

fn err_code(k: ErrorKind) -> u64 {
    match k {
        ErrorKind::LoopNotClosed => 1,
        ErrorKind::LoopNotOpened => 2,
        ErrorKind::FileReadFailed => 3,
        ErrorKind::FileEncodingError => 4,
        ErrorKind::LlvmError => 5,
    }
}

fn run_typed<C: CellType>(cfg: &Cfg, code: &str, io: &Io, slot: &mut Slot, on_bc: &mut dyn FnMut(&BcView)) {
    slot.state = ST_RUNNING;
    let slot_ptr: *mut Slot = slot;
    let res = catch_unwind(AssertUnwindSafe(|| {
        let a0 = alloc::counters().0;
        let exec: Box<dyn Executable<C> + '_> = match cfg.backend {
            Backend::Inplace => match InplaceInterpreter::<C>::create(code, cfg.level) {
                Ok(e) => Box::new(e),
                Err(e) => return Err(e),
            },
            Backend::IrInt => match IrInterpreter::<C>::create(code, cfg.level) {
                Ok(e) => Box::new(e),
                Err(e) => return Err(e),
            },
            Backend::BcInt => match BcInterpreter::<C>::create(code, cfg.level) {
                Ok(e) => {
                    on_bc(&bcview::view(e.verif_bytecode()));
                    Box::new(e)
                }
                Err(e) => return Err(e),
            },
            #[cfg(not(miri))]
            Backend::Jit => match BaseJitCompiler::<C>::create(code, cfg.level) {
                Ok(e) => {
                    on_bc(&bcview::view(e.verif_bytecode()));
                    Box::new(e)
                }
                Err(e) => return Err(e),
            },
            #[cfg(miri)]
            Backend::Jit => panic!("no JIT under miri"),
        };
        let a1 = alloc::counters().0;
        // (the logging reader/writer re-derive their own references from `slot_ptr`; keep no
        // long-lived reference here)
        unsafe { (*slot_ptr).aux[0] = a1 - a0 };
        let reader: Option<Box<dyn std::io::Read>> = io.input.as_ref().map(|d| {
            Box::new(LogReader { slot: slot_ptr, data: d.clone(), pos: 0, fault: io.fault }) as Box<dyn std::io::Read>
        });
        let writer: Option<Box<dyn std::io::Write>> = if io.has_output {
            Some(Box::new(LogWriter { slot: slot_ptr, fault: io.fault }))
        } else {
            None
        };
        let mut cxt = Context::<C>::new(reader, writer);
        let a2 = alloc::counters().0;
        alloc::arm(true);
        let r = match cfg.mode {
            Mode::Exec => exec.execute(&mut cxt).map(|_| true),
            Mode::Limited(b) => {
                cxt.budget = b;
                exec.execute_limited(&mut cxt)
            }
            Mode::Unsafe { lo, hi } => {
                cxt.memory.make_accessible(lo, hi);
                unsafe { exec.execute_unsafe(&mut cxt).map(|_| true) }
            }
        };
        alloc::arm(false);
        let a3 = alloc::counters().0;
        unsafe {
            (*slot_ptr).aux[1] = a3 - a2;
            (*slot_ptr).aux[2] = cxt.budget as u64;
        }
        drop(cxt);
        drop(exec);
        Ok(r)
    }));
    alloc::arm(false);
    let slot = unsafe { &mut *slot_ptr };
    match res {
        Ok(Ok(Ok(finished))) => {
            if finished {
                slot.flags |= FLAG_FINISHED;
            }
            slot.state = ST_RETURNED;
        }
        Ok(Ok(Err(_))) => {
            slot.flags |= FLAG_ERR;
            slot.state = ST_RETURNED;
        }
        Ok(Err(e)) => {
            slot.aux[6] = err_code(e.kind);
            slot.aux[7] = e.position as u64;
            slot.state = ST_CREATE_ERR;
        }
        Err(_) => {
            slot.state = ST_PANICKED;
        }
    }
}

pub fn all_backends() -> Vec<Backend> {
    if cfg!(miri) {
        vec![Backend::Inplace, Backend::IrInt, Backend::BcInt]
    } else {
        vec![Backend::Inplace, Backend::IrInt, Backend::BcInt, Backend::Jit]
    }
}
