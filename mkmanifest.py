#!/usr/bin/env python3
"""Generates MANIFEST.json from the table below (kept in one place so it stays consistent)."""
import json
import os

ROOT = os.path.dirname(os.path.abspath(__file__))

TB = ("Trusted base: the harness' canonical Brainfuck interpreter (harness/src/spec.rs, written from the property text, "
      "cross-checked on every run against a second interpreter in check.py), the fork/shared-memory isolation, and the "
      "generators' reach. Held on the executions explored, not proved. ")

CHECKS = {
    "C01": dict(
        technique="runtime monitoring: differential I/O event-log oracle over generated programs (canonical interpreter vs IrInterpreter)",
        text=("Exploration. Every evaluation runs the real IrInterpreter (levels 0,1,2,3 and one level > 3) in a forked child with a "
              "logging Read/Write pair and compares the interleaved request/output event log with the harness' canonical interpreter; "
              "hook H3 reports which optimizer loop classes and closed forms the workload actually exercised."),
        note=TB + "Programs whose canonical run exceeds the step cap (2e5 quick / 1e6 thorough) are skipped and counted.",
        design="5 C01"),
    "C02": dict(
        technique="runtime monitoring: differential I/O event-log oracle, release and debug-assertion builds of the bytecode interpreter",
        text=("Exploration. As C01 for BcInterpreter at levels 0..3, executed in two builds of the harness: release (tail-called dispatch) and "
              "a debug-assertions/overflow-checks profile (trampolined dispatch). Bytecode form coverage is counted from the bytecode each executor holds (hook H2)."),
        note=TB,
        design="5 C02"),
    "C03": dict(
        technique="runtime monitoring: differential I/O event-log oracle on JIT-executed machine code in forked children, selector-case coverage from hook H2",
        text=("Exploration. As C01 for BaseJitCompiler (levels 0..3 and > 3) with register-pressure and large-immediate workloads; a crash of the generated "
              "code is attributed through the fork boundary. The evidence lists which instruction-selector cases (operand in callee/caller-saved register, "
              "stack slot, memory, small/large immediate, aliasing, scratch availability) were observed."),
        note=TB + "Selector cases that no generated source program produced are not covered; they are listed as unobserved.",
        design="5 C03"),
    "C04": dict(
        technique="runtime monitoring: differential I/O event-log oracle (canonical interpreter vs InplaceInterpreter), plus comment-injection metamorphic runs",
        text="Exploration. InplaceInterpreter (execute and execute_limited with an unlimited budget) against the canonical event sequence on generated programs at all four widths.",
        note=TB,
        design="5 C04"),
}

NOT_YET = {
}

NA = []

order = ["C%02d" % i for i in range(1, 19)]

checks = []
for pid in order:
    if pid in CHECKS:
        c = CHECKS[pid]
        checks.append({
            "property_id": pid,
            "quick_cmd": f"python3 check.py {pid} quick",
            "thorough_cmd": f"python3 check.py {pid} thorough",
            "evidence_file": f"evidence/{pid}.json",
            "replay_cmd_template": "python3 check.py replay {path}",
            "engine": "hv",
            "level_claimed": {"category": c.get("category", "exploration"), "text": c["text"], "design_ref": c["design"]},
            "level_note": c["note"],
            "technique": c["technique"],
        })
    else:
        NA.append({"property_id": pid, "reason": NOT_YET.get(pid, "check not built yet (work in progress; the design in DESIGN.md section 5 applies)")})

manifest = {
    "version": 1,
    "setup_cmd": "python3 check.py setup",
    "hooks": {
        "guard": "cargo feature `verif` (off by default)",
        "enable": "the harness crate depends on hpbf with `features = [\"verif\"]` (harness/Cargo.toml); /repo itself is built without it",
        "baseline_off_cmd": "cd /repo && cargo test --workspace --no-fail-fast --offline",
        "source_commits": ["5a75dfa", "4f89182", "1766c19"],
        "add_only": True,
    },
    "engines": [
        {"name": "hv", "path": "harness/", "serves_properties": [c["property_id"] for c in checks],
         "kind_free_text": "Rust harness linking hpbf: canonical interpreter, generators, logging Read/Write, guard-page/fault-injecting global allocator, fork isolation; check.py shards and aggregates"},
    ],
    "checks": checks,
    "not_applicable": NA,
    "notes": "Known findings / fixed defects: known_findings.json. Design: DESIGN.md.",
}

with open(os.path.join(ROOT, "MANIFEST.json"), "w") as f:
    json.dump(manifest, f, indent=1)
print("wrote MANIFEST.json with", len(checks), "checks,", len(NA), "not_applicable")
