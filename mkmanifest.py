#!/usr/bin/env python3
"""Generates MANIFEST.json from the table below (kept in one place so it stays consistent)."""
import json
import os

ROOT = os.path.dirname(os.path.abspath(__file__))

TB = ("Trusted base: the harness' canonical Brainfuck interpreter (harness/src/spec.rs, written from the property text, "
      "cross-checked on every run against a second interpreter in check.py), the fork/shared-memory isolation, and the "
      "generators' reach. Held on the executions explored, not proved. ")

CHECKS = {
    "C01": dict(
        technique="runtime monitoring: differential I/O event-log oracle over generated programs (canonical interpreter vs IrInterpreter)",
        text=("Exploration. Every evaluation runs the real IrInterpreter (levels 0,1,2,3 and one level > 3) in a forked child with a "
              "logging Read/Write pair and compares the interleaved request/output event log with the harness' canonical interpreter; "
              "hook H3 reports which optimizer loop classes and closed forms the workload actually exercised."),
        note=TB + "Programs whose canonical run exceeds the step cap (2e5 quick / 1e6 thorough) are skipped and counted.",
        design="5 C01"),
    "C02": dict(
        technique="runtime monitoring: differential I/O event-log oracle, release and debug-assertion builds of the bytecode interpreter",
        text=("Exploration. As C01 for BcInterpreter at levels 0..3, executed in two builds of the harness: release (tail-called dispatch) and "
              "a debug-assertions/overflow-checks profile (trampolined dispatch). Bytecode form coverage is counted from the bytecode each executor holds (hook H2); a committed coverage corpus (corpus/bccov.tsv, one program per op form incl. operand aliasing) is always run. Thorough adds an AddressSanitizer build and an in-process Miri stage."),
        note=TB,
        design="5 C02"),
    "C03": dict(
        technique="runtime monitoring: differential I/O event-log oracle on JIT-executed machine code in forked children, selector-case coverage from hook H2",
        text=("Exploration. As C01 for BaseJitCompiler (levels 0..3 and > 3) with register-pressure and large-immediate workloads; a crash of the generated "
              "code is attributed through the fork boundary. The evidence lists which instruction-selector cases (operand in callee/caller-saved register, "
              "stack slot, memory, small/large immediate, aliasing, scratch availability) were observed; a committed coverage corpus found by coverage-guided search (corpus/jitcov.tsv, 530 programs for 579 selector cases) and the witnesses of fixed defects (corpus/witness.tsv) are always run. Thorough adds valgrind memcheck over JIT-executed code."),
        note=TB + "Selector cases that no generated source program produced are not covered; they are listed as unobserved.",
        design="5 C03"),
    "C04": dict(
        technique="runtime monitoring: differential I/O event-log oracle (canonical interpreter vs InplaceInterpreter), plus comment-injection metamorphic runs",
        text="Exploration. InplaceInterpreter (execute and execute_limited with an unlimited budget) against the canonical event sequence on generated programs at all four widths.",
        note=TB,
        design="5 C04"),
    "C05": dict(
        technique="runtime monitoring: bounded-window observation of forked executions (returned flag + shared-memory event log) against divergence proved by exact state recurrence in the canonical interpreter",
        text=("Exploration of a bounded restatement. Divergence of the canonical run is proved (Brent cycle detection on full machine states); each back end x level is then observed in a forked child for a window "
              ">= 100x the canonical time: a return inside the window is a definite violation, the event log at the end of the window must match the canonical events, missing events are confirmed by an isolated 10x re-run. "
              "Canonically halting cases (ten times as many, C02 family mix) must return with the canonical log under a watchdog on every back end."),
        note=TB + "'Never returns' cannot be decided by a finite run; only 'returns within the window' is refuted. Wrap-dependent divergence is reachable at 8/16 bit only; roaming divergence is outside the quantifier.",
        design="5 C05"),
    "C17": dict(
        category="fault_enumeration",
        technique="runtime monitoring with fault injection: the harness' global allocator fails the k-th allocation made during execute, enumerated over k; exit status / signal classification + event-log prefix check",
        text=("Fault enumeration. For each growth-heavy program, back end and level the allocations made during execute are counted in a clean run and then each one is failed in turn in a forked child; the run must end by the "
              "allocation-failure abort or a panic before any memory fault, with the events so far a prefix of the canonical run. A second stage requests tape positions that no allocator can provide (>= 2^60 cells, up to the ends of isize) through the tape API and accepts only the abort or a panic."),
        note="Trusted base: the interposed global allocator and the SIGSEGV/SIGBUS handler. A write through a null-based pointer that happens to hit mapped memory would not fault; the first pages are unmapped in the children.",
        design="5 C17"),
    "C06": dict(
        technique="runtime monitoring: guard-page global allocator (every allocation made during execute flush against PROT_NONE pages, left and right; freed blocks stay inaccessible) + I/O event-log oracle on roaming programs",
        text=("Exploration. All four back ends run roaming / scanning / register-pressure programs twice in forked children whose global allocator places every "
              "allocation made during execute flush against an inaccessible page on the right, then on the left, and never reuses freed addresses; a SIGSEGV/SIGBUS "
              "is attributed to the configuration in progress. The event log must equal the canonical one (cells survive reallocation)."),
        note=TB + "Accesses that land inside another live allocation are not detected by guard pages (one mapping per allocation makes that unlikely, not impossible).",
        design="5 C06"),
    "C07": dict(
        technique="runtime monitoring: prefix/completion checker over (finished flag, I/O event log) for budget ladders 0..usize::MAX on halting and provably cycling programs",
        text=("Exploration. execute_limited of every back end with budgets 0,1,2,3,5,10,...,1e5, random, and for canonically halting programs 2^31, 2^62, usize::MAX: "
              "finished => log equals the canonical sequence; unfinished => log is a prefix; unlimited budgets must finish halting programs; programs whose canonical run "
              "provably repeats a machine state must never report finished. 'Returns in time bounded by the budget' is restated as: returns under a 3 s watchdog (30 s when re-run alone) for budgets <= 1e5 on divergent programs."),
        note=TB + "Divergence is proved by exact state recurrence (Brent) in the canonical interpreter; roaming divergence is outside the quantifier. Wall-clock only as watchdog.",
        design="5 C07"),
    "C08": dict(
        category="fault_enumeration",
        technique="runtime monitoring with fault injection: enumerated failing event positions (refused write Ok(0)/Err, failing read Err, absent input, absent output) checked by a stop-at-fault log checker",
        text=("Fault enumeration. For every I/O-bearing case and every event index k < 24 (quick) / 64 (thorough, plus sampled later positions) one run per fault kind and back end: "
              "the log must be the canonical events before k followed by exactly the one refused canonical operation and nothing after; no panic, crash or Err; the call returns. "
              "End of input is data (reads 0). Absent input stops at the first request; an absent sink accepts everything."),
        note=TB + "The LLVM back end (named in the anchors) cannot be built here (needs LLVM 17) and is not covered.",
        design="5 C08"),
    "C09": dict(
        technique="runtime monitoring: map-model shadow of hpbf::runtime::Memory over random call histories, under guard-page allocation (both placements) and under Miri",
        text=("Exploration. Random histories of mov/read/write/make_accessible/check/check_ptr/current_ptr/set_current_ptr against a HashMap model; reads-never-allocate is "
              "observed through the allocator's counter; after every growth all model cells, the logical pointer and all promised ranges are re-checked. Native runs use the guard-page allocator in both placements; a reduced workload runs under Miri."),
        note="Trusted base: the HashMap model, the allocator counter, Miri. Writes/ranges are kept within 2^17 cells of touched territory.",
        design="5 C09"),
    "C10": dict(
        technique="runtime monitoring: execute_unsafe on a context pre-grown to exactly [lo-len, hi+len] under the guard-page allocator (both placements) + I/O event-log oracle",
        text=("Exploration. For programs whose canonical pointer excursion is [lo,hi], execute_unsafe of the bytecode interpreter and the baseline JIT (levels 0..3) on a tape "
              "pre-grown with make_accessible(lo-len, hi+len+1); the guard allocator makes the tape exactly that region so the first byte outside faults; the log must equal the canonical one."),
        note=TB,
        design="5 C10"),
    "C11": dict(
        technique="runtime monitoring: invariant at a hook (static validator over every bytecode program produced / held by executors) + adversarial-contract shadow interpreter compared with the canonical event log",
        text=("Exploration. For every generated source program, width, level 0..3 and both generator settings the finished bytecode is validated over all paths (CFG, must-defined temporaries, liveness vs the live bitmap, "
              "operand window, temp count, branch targets) and executed by an independent interpreter that destroys every register temporary not declared live and traps on poison; the validator also runs on the bytecode "
              "held by BcInterpreter and BaseJitCompiler (hook H2) in every differential check."),
        note="Trusted base: the validator's reading of the contract (calibrated: silent on the unchanged tree over > 10^6 bytecodes) and the canonical interpreter. Over programs it is sampling; per program the static part is exhaustive over paths.",
        design="5 C11"),
    "C12": dict(
        technique="runtime monitoring: reference bracket matcher + metamorphic comment-insertion pairs over generated and exhaustively enumerated source strings, in forked children on the main-thread stack, release and debug profiles",
        text="Exploration with an exhaustive small-scope part (all 3280 strings over {[,],+} up to length 7). Acceptance, error kind and character position of every parsing executor are compared with a reference matcher; comment insertion (incl. multi-byte UTF-8) must not change acceptance, error kind, command-relative position or the event log of any back end; nesting depth up to 300 must not crash.",
        note=TB + "Depth is bounded at 300 as the property says 'moderate'.",
        design="5 C12"),
    "C13": dict(
        technique="runtime monitoring: artefact-hash comparison within and across ASLR-free worker processes, panic capture at the API boundary in release and overflow-check builds, allocator-call and allocated-byte growth envelopes along parameterised program families (forked, address-space-limited, watchdogged), repeated-execution log comparison",
        text="Exploration. Totality (no panic/abort/overflow in create/translate/print_mc for nesting depth <= 300, both profiles), determinism (IR / bytecode / machine code equal between compilations in one process with other compilations in between and across 16 processes), reusability (six executions of one executor on fresh contexts in mixed modes) and a growth envelope on allocator calls and allocated bytes along 17 parameterised families (nested multiply loops, squarings, rotations, copies, straight-line, sequential loops, nested ifs, and chains of products at top level and inside a loop).",
        note="'Super-polynomial blow-up' is restated as: along each family (n = 4..64, programs < 3000 characters) calls and bytes grow by at most (n1/n0)^5 plus a fixed slack between consecutive sizes, and every compilation finishes within 60 s and 6 GiB of address space. Machine code is compared without ASLR.",
        design="5 C13"),
    "C16": dict(
        technique="runtime monitoring at the process boundary: random argv against a model configuration, stdout/exit status oracle (canonical interpreter), strace observation of PROT_EXEC / 512 MiB mappings, stdin file offset",
        text="Exploration. The real binary, rebuilt from /repo, is invoked with random flag subsets and orders and code split between -f files and bare arguments; output, exit status, diagnostics, the back end and mode actually used (via strace) and non-consumption of stdin by print options are checked.",
        note="Trusted base: check.py's Python canonical interpreter; 'last flag wins' for repeated flags; strace. 32 vs 64 bit cells are distinguished through --print-ir witnesses only (a run-time distinction would need 2^32 steps).",
        design="5 C16"),
    "C14": dict(
        technique="runtime monitoring: postcondition assertions from the definitions over exhaustive (8 bit; 16 bit in thorough) and structured/random operand sets, plus Miri",
        text="Exploration, exhaustive at 8 bits (all (n,d) and (base,exp) pairs) and at 16 bits in the thorough tier (all 2^32 (n,d) pairs); every (tz(n),tz(d)) combination plus boundary and random operands at 32/64 bits.",
        note="Trusted base: u128 reference arithmetic in the harness.",
        design="5 C14"),
    "C15": dict(
        technique="runtime monitoring: value-level oracle on random expression trees built through the public Expr API, evaluated under assignments chosen to hit the half-modulus logic; Miri on a reduced workload",
        text="Exploration. Sum, product, negation, halving, normalisation, substitution and every structural decomposition (inc_of, prod_inc_of, const_inc_of, prod_of, constant, constant_part, identity, split_along) are compared with concrete arithmetic at all four widths.",
        note="Equality is checked under 8 sampled assignments per expression, not symbolically.",
        design="5 C15"),
    "C18": dict(
        technique="runtime monitoring: Vec model + drop-tracking elements (exactly-once drop table audited after every operation) over random operation histories; Miri on a reduced workload",
        text="Exploration. Random histories over a pool of vectors for inline capacities 1, 2 (those used) and 4, with drop-tracked boxed elements and plain elements; slice view, comparisons and hash against a Vec model; live-element table must equal the number of held elements after every operation and be empty at the end.",
        note="Trusted base: Vec as the model; hook H1 exposes the private type. UB that does not change contents is only visible to the Miri stage.",
        design="5 C18"),
}

NOT_YET = {
}

NA = []

order = ["C%02d" % i for i in range(1, 19)]

checks = []
for pid in order:
    if pid in CHECKS:
        c = CHECKS[pid]
        checks.append({
            "property_id": pid,
            "quick_cmd": f"python3 check.py {pid} quick",
            "thorough_cmd": f"python3 check.py {pid} thorough",
            "evidence_file": f"evidence/{pid}.json",
            "replay_cmd_template": "python3 check.py replay {path}",
            "engine": "hv",
            "level_claimed": {"category": c.get("category", "exploration"), "text": c["text"], "design_ref": c["design"]},
            "level_note": c["note"],
            "technique": c["technique"],
        })
    else:
        NA.append({"property_id": pid, "reason": NOT_YET.get(pid, "check not built yet (work in progress; the design in DESIGN.md section 5 applies)")})

manifest = {
    "version": 1,
    "setup_cmd": "python3 check.py setup",
    "hooks": {
        "guard": "cargo feature `verif` (off by default)",
        "enable": "the harness crate depends on hpbf with `features = [\"verif\"]` (harness/Cargo.toml); /repo itself is built without it",
        "baseline_off_cmd": "cd /repo && cargo test --workspace --no-fail-fast --offline",
        "source_commits": ["5a75dfa", "4f89182", "1766c19"],
        "add_only": True,
    },
    "engines": [
        {"name": "hv", "path": "harness/", "serves_properties": [c["property_id"] for c in checks],
         "kind_free_text": "Rust harness linking hpbf: canonical interpreter, generators, logging Read/Write, guard-page/fault-injecting global allocator, fork isolation; check.py shards and aggregates"},
    ],
    "checks": checks,
    "not_applicable": NA,
    "notes": "Known findings / fixed defects: known_findings.json. Design: DESIGN.md.",
}

with open(os.path.join(ROOT, "MANIFEST.json"), "w") as f:
    json.dump(manifest, f, indent=1)
print("wrote MANIFEST.json with", len(checks), "checks,", len(NA), "not_applicable")
