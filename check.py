#!/usr/bin/env python3
"""Orchestrator: builds the harness against /repo's current working tree, shards the monitors over
the cores, aggregates what they observed, applies the known-findings list, writes
evidence/<id>.json and prints the verdict lines.

usage: check.py <property-id> [quick|thorough]
       check.py replay <replay-file>
exit:  0 = held on everything explored, 1 = VIOLATION line(s) printed, 2 = infrastructure failure
"""
import json
import os
import subprocess
import sys
import time

ROOT = os.path.dirname(os.path.abspath(__file__))
BUILD = os.path.join(ROOT, ".build")
TARGET = os.path.join(BUILD, "target")
OUT = os.path.join(ROOT, "out")
HARNESS = os.path.join(ROOT, "harness")
NCPU = min(16, os.cpu_count() or 4)

ENV = dict(os.environ)
ENV["CARGO_TARGET_DIR"] = TARGET
ENV["CARGO_NET_OFFLINE"] = "true"


def log(*a):
    print(*a, file=sys.stderr, flush=True)


def build(profile):
    """profile: release | dbg | asan | miri ; returns path of the hv binary (or None for miri)."""
    t0 = time.time()
    if profile == "release":
        cmd = ["cargo", "build", "--release", "--offline"]
        path = os.path.join(TARGET, "release", "hv")
        env = ENV
    elif profile == "dbg":
        cmd = ["cargo", "build", "--profile", "dbg", "--offline"]
        path = os.path.join(TARGET, "dbg", "hv")
        env = ENV
    elif profile == "asan":
        env = dict(ENV)
        env["CARGO_TARGET_DIR"] = os.path.join(BUILD, "target-asan")
        env["RUSTFLAGS"] = "-Zsanitizer=address -Cforce-frame-pointers=yes"
        cmd = ["cargo", "+nightly", "build", "--release", "--offline", "--target", "x86_64-unknown-linux-gnu"]
        path = os.path.join(BUILD, "target-asan", "x86_64-unknown-linux-gnu", "release", "hv")
    else:
        raise ValueError(profile)
    r = subprocess.run(cmd, cwd=HARNESS, env=env, capture_output=True, text=True)
    if r.returncode != 0:
        log(r.stdout[-3000:])
        log(r.stderr[-6000:])
        log(f"BUILD FAILED ({profile})")
        sys.exit(2)
    log(f"[build {profile}: {time.time() - t0:.1f}s]")
    return path


def build_repo_cli():
    """The real hpbf binary, rebuilt from /repo's working tree (own target dir)."""
    env = dict(ENV)
    env["CARGO_TARGET_DIR"] = os.path.join(BUILD, "repo-target")
    r = subprocess.run(["cargo", "build", "--release", "--offline", "--bin", "hpbf"], cwd="/repo", env=env, capture_output=True, text=True)
    if r.returncode != 0:
        log(r.stderr[-4000:])
        sys.exit(2)
    return os.path.join(BUILD, "repo-target", "release", "hpbf")


MIRI_ENV = {"CARGO_TARGET_DIR": os.path.join(BUILD, "target-miri"), "MIRIFLAGS": "-Zmiri-disable-isolation"}
MIRI = ["cargo", "+nightly", "miri", "run", "--offline", "-q", "--"]


def build_miri():
    t0 = time.time()
    env = dict(ENV)
    env.update(MIRI_ENV)
    r = subprocess.run(MIRI + ["help"], cwd=HARNESS, env=env, capture_output=True, text=True)
    if r.returncode not in (0, 2):
        log(r.stderr[-4000:])
        log("BUILD FAILED (miri)")
        sys.exit(2)
    log(f"[build miri: {time.time() - t0:.1f}s]")
    return MIRI


def run_shards(binary, cmd, prop, tag, seed, tier, nshards, count, secs, extra=(), env_extra=None, wrapper=()):
    """Run `nshards` processes of `hv cmd`; returns list of parsed result dicts."""
    outdir = os.path.join(OUT, prop, tag)
    os.makedirs(outdir, exist_ok=True)
    procs = []
    env = dict(ENV)
    if env_extra:
        env.update(env_extra)
    for i in range(nshards):
        out = os.path.join(outdir, f"shard{i}.json")
        if os.path.exists(out):
            os.remove(out)
        argv = list(wrapper) + (list(binary) if isinstance(binary, (list, tuple)) else [binary]) + [cmd, "--prop", prop, "--seed", str(seed), "--shard", str(i), "--nshards", str(nshards),
                                "--count", str(count), "--secs", str(secs), "--tier", tier, "--out", out,
                                "--replay-dir", os.path.join(OUT, "replays", prop), "--corpus", os.path.join(ROOT, "corpus")] + list(extra)
        lf = open(os.path.join(outdir, f"shard{i}.log"), "w")
        procs.append((subprocess.Popen(argv, stdout=lf, stderr=subprocess.STDOUT, env=env, cwd=HARNESS), out, lf))
    results = []
    for p, out, lf in procs:
        rc = p.wait()
        lf.close()
        if rc not in (0, 1) or not os.path.exists(out):
            log(f"shard failed rc={rc}: see {lf.name}")
            try:
                log(open(lf.name).read()[-2000:])
            except Exception:
                pass
            results.append({"infra_error": f"rc={rc}", "counters": {}, "distinct": [], "samples": [], "violations": [], "inconclusive": [], "cover": []})
            continue
        try:
            results.append(json.load(open(out)))
        except Exception as e:  # noqa
            log(f"bad result file {out}: {e}")
            results.append({"infra_error": "bad json", "counters": {}, "distinct": [], "samples": [], "violations": [], "inconclusive": [], "cover": []})
    return results


class Merge:
    def __init__(self):
        self.counters = {}
        self.distinct = set()
        self.samples = []
        self.violations = []
        self.inconclusive = []
        self.cover = {}
        self.infra = []
        self.stage_counters = {}

    def add(self, tag, results, max_keys=("max_excursion",)):
        sc = self.stage_counters.setdefault(tag, {})
        for r in results:
            if "infra_error" in r:
                self.infra.append(f"{tag}: {r['infra_error']}")
            for k, v in r.get("counters", {}).items():
                if k in max_keys or k.startswith("max"):
                    self.counters[k] = max(self.counters.get(k, 0), v)
                    sc[k] = max(sc.get(k, 0), v)
                else:
                    self.counters[k] = self.counters.get(k, 0) + v
                    sc[k] = sc.get(k, 0) + v
            self.distinct.update(r.get("distinct", []))
            for s in r.get("samples", []):
                if len(self.samples) < 8:
                    self.samples.append(s)
            for v in r.get("violations", []):
                v["stage"] = tag
                self.violations.append(v)
            self.inconclusive.extend(r.get("inconclusive", []))
            for k, n in r.get("cover", []):
                self.cover[k] = self.cover.get(k, 0) + n


def load_known():
    p = os.path.join(ROOT, "known_findings.json")
    if not os.path.exists(p):
        return {"findings": [], "fixed": []}
    return json.load(open(p))


def matches_finding(f, v):
    """A finding is keyed on an exact signature: property + match dict over the violation's case."""
    case = v.get("case", {})
    for k, want in f.get("match", {}).items():
        got = case.get(k)
        if k == "why_contains":
            if want not in case.get("why", ""):
                return False
        elif got != want:
            return False
    return True


def finish(prop, tier, seed, level, merged, t0, rule, assumptions, floors=(), extra_cov=None, explanation=None):
    known = load_known()
    findings = [f for f in known.get("findings", []) if prop in f.get("properties", [f.get("property")])]
    new_violations = []
    seen_findings = {}
    for v in merged.violations:
        hit = None
        for f in findings:
            if matches_finding(f, v):
                hit = f
                break
        if hit is not None:
            seen_findings[hit["id"]] = hit
        else:
            new_violations.append(v)
    cov = {
        "evaluations": int(merged.counters.get("evaluations", 0)),
        "distinct_nontrivial": len(merged.distinct),
        "rule": rule,
        "samples": merged.samples[:8],
        "counters": merged.counters,
        "stages": merged.stage_counters,
        "observed": {k: merged.cover[k] for k in sorted(merged.cover)},
        "inconclusive_cases": merged.inconclusive[:20],
        "inconclusive_total": len(merged.inconclusive),
        "known_findings_observed": sorted(seen_findings),
    }
    if extra_cov:
        cov.update(extra_cov)
    if explanation:
        cov["explanation"] = explanation
    ev = {
        "property_id": prop,
        "tier": tier,
        "seed": seed,
        "level": level,
        "coverage": cov,
        "assumptions": assumptions,
        "wall_s": round(time.time() - t0, 2),
        "violations": len(new_violations),
    }
    os.makedirs(os.path.join(ROOT, "evidence"), exist_ok=True)
    with open(os.path.join(ROOT, "evidence", f"{prop}.json"), "w") as f:
        json.dump(ev, f, indent=1, sort_keys=True)
    for fid, f in sorted(seen_findings.items()):
        print(f"KNOWN-FINDING: property={prop} {f['what']}")
    if merged.infra:
        for m in merged.infra:
            log("INFRA:", m)
        print(f"INFRASTRUCTURE-FAILURE property={prop}: {merged.infra[0]}")
        return 2
    for name, need in floors:
        have = merged.counters.get(name, merged.cover.get(name, 0))
        if name == "distinct_nontrivial":
            have = len(merged.distinct)
        if have < need:
            print(f"INFRASTRUCTURE-FAILURE property={prop}: monitor floor not met: {name}={have} < {need}")
            return 2
    if new_violations:
        shown = set()
        for v in new_violations:
            if v["replay"] in shown:
                continue
            shown.add(v["replay"])
            if len(shown) <= 10:
                print(f"VIOLATION property={prop} replay={v['replay']}")
                log("   ", v.get("case", {}).get("why", "")[:300])
        log(f"{len(new_violations)} violating evaluations, {len(shown)} distinct replays")
        return 1
    print(f"OK property={prop} tier={tier} seed={seed} evaluations={cov['evaluations']} distinct_nontrivial={cov['distinct_nontrivial']} inconclusive={len(merged.inconclusive)} wall_s={ev['wall_s']}")
    return 0


# ---------------------------------------------------------------------------------------------------
# per-property drivers

DIFF_RULE = ("cases = (program, input, cell width) drawn from the committed corpus (always in full) plus seeded generators "
             "(grammar-random, structured idioms, register-pressure systems, roaming, scans, mutants); each case is first run on the "
             "harness' own canonical interpreter and kept only if that run halts (or provably cycles, where the property speaks of "
             "divergence) within the step cap; one evaluation = one execution of a real hpbf back end in a forked child with the "
             "shared read/write event log compared against the canonical event sequence. distinct_nontrivial counts distinct "
             "(program, input, width) triples whose canonical run executed >= 1 loop iteration and >= 1 I/O event.")

DIFF_ASSUME = [
    "the harness' canonical interpreter (spec.rs, written from the property text; cross-checked against check.py's Python interpreter on a sample)",
    "programs whose canonical run exceeds the step cap are skipped and counted, never passed",
    "the watchdog is wall-clock; a firing is only a verdict after an isolated re-run with a 10x ceiling",
]


def tier_counts(tier, quick, thorough):
    return thorough if tier == "thorough" else quick


def py_spec(code, inp, bits, cap=400000):
    """Second, independent canonical interpreter (dict tape). Returns event list or None if cap hit."""
    mask = (1 << bits) - 1
    stack, match = [], {}
    for i, c in enumerate(code):
        if c == '[':
            stack.append(i)
        elif c == ']':
            j = stack.pop()
            match[i] = j
            match[j] = i
    tape, p, pc, ip, ev, steps = {}, 0, 0, 0, [], 0
    n = len(code)
    while pc < n:
        steps += 1
        if steps > cap:
            return None
        c = code[pc]
        if c == '+':
            tape[p] = (tape.get(p, 0) + 1) & mask
        elif c == '-':
            tape[p] = (tape.get(p, 0) - 1) & mask
        elif c == '>':
            p += 1
        elif c == '<':
            p -= 1
        elif c == '.':
            ev.append(tape.get(p, 0) & 0xff)
        elif c == ',':
            if ip < len(inp):
                tape[p] = inp[ip]
                ev.append(0x100 | inp[ip])
                ip += 1
            else:
                tape[p] = 0
                ev.append(0x200)
        elif c == '[':
            if tape.get(p, 0) == 0:
                pc = match[pc]
        elif c == ']':
            if tape.get(p, 0) != 0:
                pc = match[pc]
        pc += 1
    return ev


def cross_check_oracle(binary, prop, seed, n):
    """Run the Rust spec on generated programs (hv specdump) and compare with py_spec."""
    r = subprocess.run([binary, "specdump", "--prop", prop, "--seed", str(seed), "--count", str(n), "--corpus", os.path.join(ROOT, "corpus")],
                       capture_output=True, text=True, env=ENV)
    agree = disagree = skipped = 0
    bad = []
    for line in r.stdout.splitlines():
        parts = line.split("\t")
        if len(parts) != 5:
            continue
        bits, inhex, status, evs, code = parts
        if status != "halted":
            skipped += 1
            continue
        want = py_spec(code, bytes.fromhex(inhex), int(bits))
        if want is None:
            skipped += 1
            continue
        got = [int(x) for x in evs.split(",")] if evs else []
        if want[:len(got)] == got and (len(want) == len(got) or len(got) == 4096):
            agree += 1
        else:
            disagree += 1
            bad.append({"program": code, "input_hex": inhex, "bits": int(bits)})
    return agree, disagree, skipped, bad


def check_diff(prop, tier, seed, level="exploration", profiles=("release",), quick=(24000, 90), thorough=(500000, 900), floors=(), extra=()):
    t0 = time.time()
    merged = Merge()
    count, secs = tier_counts(tier, quick, thorough)
    bins = {p: build(p) for p in profiles}
    for p in profiles:
        res = run_shards(bins[p], "diff", prop, p, seed, tier, NCPU, count, secs, extra=extra)
        merged.add(p, res)
    agree, disagree, skipped, bad = cross_check_oracle(bins[profiles[0]], prop, seed, 150 if tier == "quick" else 1000)
    merged.counters["oracle_crosscheck_agree"] = agree
    merged.counters["oracle_crosscheck_disagree"] = disagree
    merged.counters["oracle_crosscheck_skipped"] = skipped
    if disagree:
        merged.infra.append(f"the two canonical interpreters disagree on {disagree} programs, e.g. {bad[0]}")
    return finish(prop, tier, seed, level, merged, t0, DIFF_RULE, DIFF_ASSUME,
                  floors=list(floors) + [("distinct_nontrivial", 50), ("oracle_crosscheck_agree", 20)])


PROP_RULES = {
    "C09": ("one case = one random history (300 operations: mov / read / write / make_accessible / check / check_ptr / current_ptr+set_current_ptr, "
            "offsets of both signs, ranges extending below, above and on both sides of the allocation, pointer parked up to 2^40 cells away for reads and "
            "checks) on a fresh hpbf::runtime::Memory, at one width, under one allocator placement (guard page right / left / system); after every "
            "operation the touched cell is compared with a HashMap model, after every operation that allocated all model cells and all promised ranges "
            "are re-checked. distinct_nontrivial counts distinct (seed, width, history index) triples (capped sample per shard); every history contains writes and growth."),
    "C14": ("evaluations = individual postcondition checks of wrapping_div / wrapping_inv / wrapping_pow / conversions / shifts written from their definitions; "
            "8 bit: all 65536 (n,d) pairs and all (base,exp) pairs; 16 bit: all divisors x 256 numerators (quick) or all 2^32 pairs (thorough); 32/64 bit: every "
            "(tz(n),tz(d)) grid cell plus random and boundary operands. distinct_nontrivial counts distinct sampled (width,n,d) operand pairs outside the exhaustive part."),
    "C15": ("one case = one random expression pair built only through the public Expr API (val, var, add, mul, neg, half, normalize, symb_evaluate) with "
            "coefficients biased to 1, -1, 2^(w-1), 2^(w-1)+-1 and few variable names (so x*x is common), evaluated under 8 assignments chosen to hit the "
            "half-modulus logic; each operation's value is compared with arithmetic on the operand values and every decomposition is recomposed. "
            "distinct_nontrivial counts distinct expressions with >= 2 terms of which one is a product of >= 2 variables."),
    "C18": ("one case = one random history (120 operations over a pool of up to 5 vectors: constructors, push, extend, clear, retain, retain_mut, dedup, sort, "
            "clone, eq/cmp/hash, index, iter, iter_mut, by-value iteration consumed fully / partly / not at all, drop) for inline capacity N in {1,2,4} and element "
            "types with (drop-tracked, boxed) and without destructor; after every operation the slice view is compared with a Vec model and the number of live tracked "
            "elements with the number held. distinct_nontrivial counts distinct (seed, N, element type, history index) tuples (capped sample per shard)."),
}

PROP_ASSUME = {
    "C09": ["writes and requested ranges stay within 2^17 cells of touched territory so the model never asks for gigabytes (the only restriction on the quantifier)",
            "guard pages detect out-of-allocation accesses of the tape; accesses landing inside another live allocation are not detected (one mapping per allocation makes that unlikely)"],
    "C14": ["u128 reference arithmetic in the harness"],
    "C15": ["value-level equality under sampled assignments (8 per expression), not symbolic equality"],
    "C18": ["Vec as the model", "leaks are detected by the live-element table, UB by the Miri stage"],
}


def check_props(prop, tier, seed, cmd, quick, thorough, miri_quick=None, miri_thorough=None, extra=(), floors=()):
    t0 = time.time()
    merged = Merge()
    count = thorough if tier == "thorough" else quick
    b = build("release")
    res = run_shards(b, cmd, prop, "release", seed, tier, NCPU, count, 3600, extra=extra)
    merged.add("release", res)
    mcount = miri_thorough if tier == "thorough" else miri_quick
    if mcount:
        m = build_miri()
        res = run_shards(m, cmd, prop, "miri", seed, tier, NCPU, mcount[0], 3600, extra=list(extra) + list(mcount[1]), env_extra=MIRI_ENV)
        merged.add("miri", res)
        merged.counters["miri_histories_or_cases"] = merged.stage_counters.get("miri", {}).get("evaluations", 0)
    return finish(prop, tier, seed, "exploration", merged, t0, PROP_RULES[prop], PROP_ASSUME[prop] + ["Miri (nightly) as the UB oracle for the reduced workload"],
                  floors=list(floors) + [("distinct_nontrivial", 20)])


def check_cmd(prop, tier, seed, cmd, quick, thorough, level, rule, assumptions, floors=(), extra=(), profiles=("release",), secs=(90, 1500)):
    t0 = time.time()
    merged = Merge()
    count = thorough if tier == "thorough" else quick
    for p in profiles:
        b = build(p)
        res = run_shards(b, cmd, prop, p, seed, tier, NCPU, count, secs[1] if tier == "thorough" else secs[0], extra=extra)
        merged.add(p, res)
    return finish(prop, tier, seed, level, merged, t0, rule, assumptions, floors=list(floors))


C05_RULE = ("cases = (program, input, width) from divergent idioms (empty loop on a non-zero cell, even step on an odd counter, wrap-dependent loops, printing loops, "
            "input-dependent divergence, divergence nested in finite loops / behind ifs / after output), mutants and the corpus; a case is used only if the canonical "
            "interpreter either halts or proves divergence by exact recurrence of (pc, pointer, tape, remaining input) with Brent's algorithm. One evaluation = one forked "
            "execution of Executable::execute: for a provably diverging case the child is observed for a window of max(100 ms, 100 x canonical time) and then killed: returning "
            "inside the window is a violation; the shared-memory event log at the end of the window must equal the canonical events (silent cycle: exactly; printing cycle: "
            "common prefix equal and progress into the cycle); missing events are only a verdict after an isolated re-run with a 10x window. For halting cases every back end must return (5 s ceiling, 50 s alone) with the canonical log. "
            "distinct_nontrivial counts distinct provably diverging (program, input, width) triples.")
C17_RULE = ("cases = growth-heavy programs (first allocation, grow left, grow right, both, far moves, scans, input-driven growth, generated roaming) x 4 back ends x levels {0,2}; a clean run "
            "counts the N allocations made during execute; then for k = 1..N (capped at 60 quick / 400 thorough) one forked run in which the k-th allocation returns null. Accepted endings: SIGABRT "
            "(allocation-failure abort) or a caught panic, with the event log a prefix of the canonical one; a memory fault (handler installed for SIGSEGV/SIGBUS), any other signal or a normal return is a violation. "
            "distinct_nontrivial counts distinct (program, width, back end, level, k) with the failing request actually reached.")


def main():
    if len(sys.argv) < 2:
        print(__doc__)
        return 2
    prop = sys.argv[1]
    tier = sys.argv[2] if len(sys.argv) > 2 else os.environ.get("VERIF_TIER", "quick")
    if tier not in ("quick", "thorough"):
        tier = "quick"
    seed = int(os.environ.get("VERIF_SEED", "1") or 1)
    if prop == "setup":
        for p in ("release", "dbg"):
            build(p)
        build_repo_cli()
        return 0
    if prop == "replay":
        return replay(sys.argv[2])
    table = {
        "C01": lambda: check_diff("C01", tier, seed, floors=[("opt:motion.linear", 1), ("opt:loop.finite_symbolic", 1)]),
        "C02": lambda: check_diff("C02", tier, seed, profiles=("release", "dbg")),
        "C03": lambda: check_diff("C03", tier, seed),
        "C04": lambda: check_diff("C04", tier, seed),
        "C06": lambda: check_diff("C06", tier, seed, quick=(6000, 90), thorough=(120000, 900)),
        "C07": lambda: check_diff("C07", tier, seed, quick=(4000, 90), thorough=(80000, 900)),
        "C08": lambda: check_diff("C08", tier, seed, level="fault_enumeration", quick=(3000, 90), thorough=(60000, 900)),
        "C05": lambda: check_cmd("C05", tier, seed, "c05", 700, 12000, "exploration", C05_RULE, DIFF_ASSUME + [
            "non-termination is restated as: does not return within a window >= 100x the canonical time-to-cycle (a return inside the window is a definite violation; the converse is bounded)",
            "roaming divergence (never repeats a state) is outside the quantifier"], floors=[("spec.cycle_proved", 40), ("cycle.silent", 5), ("cycle.printing", 5), ("distinct_nontrivial", 20)], secs=(100, 1500)),
        "C17": lambda: check_cmd("C17", tier, seed, "c17", 24, 80, "fault_enumeration", C17_RULE, [
            "the global allocator of the harness is the only allocator hpbf sees; null is returned for exactly one request per run",
            "a SIGSEGV/SIGBUS handler turns memory faults into an attributable exit status"], floors=[("failed.zeroed_request (tape / context)", 50), ("distinct_nontrivial", 50)], secs=(300, 3000)),
        "C09": lambda: check_props("C09", tier, seed, "c09", 2000, 40000, miri_quick=(1, ["--ops", "120"]), miri_thorough=(12, ["--ops", "200"]), floors=[("growths_observed", 1000), ("requests_extending_both_sides", 10)]),
        "C14": lambda: check_props("C14", tier, seed, "c14", 200000, 5000000, miri_quick=(10, []), miri_thorough=(400, [])),
        "C15": lambda: check_props("C15", tier, seed, "c15", 8000, 600000, miri_quick=(2, []), miri_thorough=(80, [])),
        "C18": lambda: check_props("C18", tier, seed, "c18", 4000, 200000, miri_quick=(3, ["--ops", "60"]), miri_thorough=(40, ["--ops", "100"]), floors=[("drop_audits", 1000), ("by_value_iterations", 100)]),
        "C10": lambda: check_diff("C10", tier, seed, quick=(8000, 90), thorough=(160000, 900)),
    }
    if prop not in table:
        print(f"unknown property {prop}")
        return 2
    return table[prop]()


def replay(path):
    v = json.load(open(path))
    prop = v.get("property", "?")
    binary = build("dbg" if v.get("stage") == "dbg" else "release")
    code_file = os.path.join(OUT, "replay_code.tmp")
    os.makedirs(OUT, exist_ok=True)
    with open(code_file, "w") as f:
        f.write(v["program"])
    argv = [binary, "one", "--prop", prop, "--replay-path", path, "--code-file", code_file, "--input-hex", v.get("input_hex", ""),
            "--bits", str(v["bits"]), "--backend", v["backend"], "--level", str(v["level"]), "--mode", v["mode"],
            "--budget", str(v.get("budget", 0)), "--lo", str(v.get("lo", 0)), "--hi", str(v.get("hi", 0)),
            "--alloc-mode", str(v.get("alloc_mode", 0))]
    if "fault_at" in v:
        argv += ["--fault-at", str(v["fault_at"]), "--fault-err", "true" if v.get("fault_err") else "false"]
    if not v.get("input_present", True):
        argv += ["--no-input"]
    if not v.get("output_present", True):
        argv += ["--no-output"]
    r = subprocess.run(argv, env=ENV)
    return r.returncode


if __name__ == "__main__":
    sys.exit(main())
