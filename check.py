#!/usr/bin/env python3
"""Orchestrator: builds the harness against /repo's current working tree, shards the monitors over
the cores, aggregates what they observed, applies the known-findings list, writes
evidence/<id>.json and prints the verdict lines.

usage: check.py <property-id> [quick|thorough]
       check.py replay <replay-file>
exit:  0 = held on everything explored, 1 = VIOLATION line(s) printed, 2 = infrastructure failure
"""
import json
import os
import subprocess
import sys
import time

ROOT = os.path.dirname(os.path.abspath(__file__))
BUILD = os.path.join(ROOT, ".build")
TARGET = os.path.join(BUILD, "target")
OUT = os.path.join(ROOT, "out")
HARNESS = os.path.join(ROOT, "harness")
NCPU = min(16, os.cpu_count() or 4)

# The repository under test. Registered commands always use /repo; background soak runs started with
# `vp run --with-repo` may point VERIF_REPO at their snapshot so that /repo can be patched meanwhile.
REPO = os.environ.get("VERIF_REPO", "/repo")
if REPO != "/repo":
    _ct = os.path.join(HARNESS, "Cargo.toml")
    _s = open(_ct).read()
    if 'path = "/repo"' in _s:
        open(_ct, "w").write(_s.replace('path = "/repo"', f'path = "{REPO}"'))

ENV = dict(os.environ)
ENV["CARGO_TARGET_DIR"] = TARGET
ENV["CARGO_NET_OFFLINE"] = "true"


def log(*a):
    print(*a, file=sys.stderr, flush=True)


def build(profile):
    """profile: release | dbg | asan | miri ; returns path of the hv binary (or None for miri)."""
    t0 = time.time()
    if profile == "release":
        cmd = ["cargo", "build", "--release", "--offline"]
        path = os.path.join(TARGET, "release", "hv")
        env = ENV
    elif profile == "dbg":
        cmd = ["cargo", "build", "--profile", "dbg", "--offline"]
        path = os.path.join(TARGET, "dbg", "hv")
        env = ENV
    elif profile == "asan":
        env = dict(ENV)
        env["CARGO_TARGET_DIR"] = os.path.join(BUILD, "target-asan")
        env["RUSTFLAGS"] = "-Zsanitizer=address -Cforce-frame-pointers=yes"
        cmd = ["cargo", "+nightly", "build", "--release", "--offline", "--target", "x86_64-unknown-linux-gnu"]
        path = os.path.join(BUILD, "target-asan", "x86_64-unknown-linux-gnu", "release", "hv")
    else:
        raise ValueError(profile)
    r = subprocess.run(cmd, cwd=HARNESS, env=env, capture_output=True, text=True)
    if r.returncode != 0:
        log(r.stdout[-3000:])
        log(r.stderr[-6000:])
        log(f"BUILD FAILED ({profile})")
        sys.exit(2)
    log(f"[build {profile}: {time.time() - t0:.1f}s]")
    return path


def build_repo_cli():
    """The real hpbf binary, rebuilt from /repo's working tree (own target dir)."""
    env = dict(ENV)
    env["CARGO_TARGET_DIR"] = os.path.join(BUILD, "repo-target")
    r = subprocess.run(["cargo", "build", "--release", "--offline", "--bin", "hpbf"], cwd=REPO, env=env, capture_output=True, text=True)
    if r.returncode != 0:
        log(r.stderr[-4000:])
        sys.exit(2)
    return os.path.join(BUILD, "repo-target", "release", "hpbf")


MIRI_ENV = {"CARGO_TARGET_DIR": os.path.join(BUILD, "target-miri"), "MIRIFLAGS": "-Zmiri-disable-isolation"}
MIRI = ["cargo", "+nightly", "miri", "run", "--offline", "-q", "--"]


def build_miri():
    t0 = time.time()
    env = dict(ENV)
    env.update(MIRI_ENV)
    r = subprocess.run(MIRI + ["help"], cwd=HARNESS, env=env, capture_output=True, text=True)
    if r.returncode not in (0, 2):
        log(r.stderr[-4000:])
        log("BUILD FAILED (miri)")
        sys.exit(2)
    log(f"[build miri: {time.time() - t0:.1f}s]")
    return MIRI


def run_shards(binary, cmd, prop, tag, seed, tier, nshards, count, secs, extra=(), env_extra=None, wrapper=()):
    """Run `nshards` processes of `hv cmd`; returns list of parsed result dicts."""
    outdir = os.path.join(OUT, prop, tag)
    os.makedirs(outdir, exist_ok=True)
    procs = []
    env = dict(ENV)
    if env_extra:
        env.update(env_extra)
    for i in range(nshards):
        out = os.path.join(outdir, f"shard{i}.json")
        if os.path.exists(out):
            os.remove(out)
        argv = list(wrapper) + (list(binary) if isinstance(binary, (list, tuple)) else [binary]) + [cmd, "--prop", prop, "--seed", str(seed), "--shard", str(i), "--nshards", str(nshards),
                                "--count", str(count), "--secs", str(secs), "--tier", tier, "--out", out,
                                "--replay-dir", os.path.join(OUT, "replays", prop), "--corpus", os.path.join(ROOT, "corpus")] + list(extra)
        lf = open(os.path.join(outdir, f"shard{i}.log"), "w")
        procs.append((subprocess.Popen(argv, stdout=lf, stderr=subprocess.STDOUT, env=env, cwd=HARNESS), out, lf))
    results = []
    for p, out, lf in procs:
        rc = p.wait()
        lf.close()
        if rc not in (0, 1) or not os.path.exists(out):
            log(f"shard failed rc={rc}: see {lf.name}")
            try:
                log(open(lf.name).read()[-2000:])
            except Exception:
                pass
            results.append({"infra_error": f"rc={rc}", "counters": {}, "distinct": [], "samples": [], "violations": [], "inconclusive": [], "cover": []})
            continue
        try:
            results.append(json.load(open(out)))
        except Exception as e:  # noqa
            log(f"bad result file {out}: {e}")
            results.append({"infra_error": "bad json", "counters": {}, "distinct": [], "samples": [], "violations": [], "inconclusive": [], "cover": []})
    return results


class Merge:
    def __init__(self):
        self.counters = {}
        self.distinct = set()
        self.samples = []
        self.violations = []
        self.inconclusive = []
        self.cover = {}
        self.infra = []
        self.stage_counters = {}

    def add(self, tag, results, max_keys=("max_excursion",)):
        sc = self.stage_counters.setdefault(tag, {})
        for r in results:
            if "infra_error" in r:
                self.infra.append(f"{tag}: {r['infra_error']}")
            for k, v in r.get("counters", {}).items():
                if k in max_keys or k.startswith("max"):
                    self.counters[k] = max(self.counters.get(k, 0), v)
                    sc[k] = max(sc.get(k, 0), v)
                else:
                    self.counters[k] = self.counters.get(k, 0) + v
                    sc[k] = sc.get(k, 0) + v
            self.distinct.update(r.get("distinct", []))
            for s in r.get("samples", []):
                if len(self.samples) < 8:
                    self.samples.append(s)
            for v in r.get("violations", []):
                v["stage"] = tag
                self.violations.append(v)
            self.inconclusive.extend(r.get("inconclusive", []))
            for k, n in r.get("cover", []):
                self.cover[k] = self.cover.get(k, 0) + n


def load_known():
    p = os.path.join(ROOT, "known_findings.json")
    if not os.path.exists(p):
        return {"findings": [], "fixed": []}
    return json.load(open(p))


def matches_finding(f, v):
    """A finding is keyed on an exact signature: property + match dict over the violation's case."""
    case = v.get("case", {})
    for k, want in f.get("match", {}).items():
        got = case.get(k)
        if k == "why_contains":
            if want not in case.get("why", ""):
                return False
        elif got != want:
            return False
    return True


def finish(prop, tier, seed, level, merged, t0, rule, assumptions, floors=(), extra_cov=None, explanation=None):
    known = load_known()
    findings = [f for f in known.get("findings", []) if prop in f.get("properties", [f.get("property")])]
    new_violations = []
    seen_findings = {}
    for v in merged.violations:
        hit = None
        for f in findings:
            if matches_finding(f, v):
                hit = f
                break
        if hit is not None:
            seen_findings[hit["id"]] = hit
        else:
            new_violations.append(v)
    cov = {
        "evaluations": int(merged.counters.get("evaluations", 0)),
        "distinct_nontrivial": len(merged.distinct),
        "rule": rule,
        "samples": merged.samples[:8],
        "counters": merged.counters,
        "stages": merged.stage_counters,
        "observed": {k: merged.cover[k] for k in sorted(merged.cover)},
        "inconclusive_cases": merged.inconclusive[:20],
        "inconclusive_total": len(merged.inconclusive),
        "known_findings_observed": sorted(seen_findings),
    }
    if extra_cov:
        cov.update(extra_cov)
    if explanation:
        cov["explanation"] = explanation
    ev = {
        "property_id": prop,
        "tier": tier,
        "seed": seed,
        "level": level,
        "coverage": cov,
        "assumptions": assumptions,
        "wall_s": round(time.time() - t0, 2),
        "violations": len(new_violations),
    }
    os.makedirs(os.path.join(ROOT, "evidence"), exist_ok=True)
    with open(os.path.join(ROOT, "evidence", f"{prop}.json"), "w") as f:
        json.dump(ev, f, indent=1, sort_keys=True)
    for fid, f in sorted(seen_findings.items()):
        print(f"KNOWN-FINDING: property={prop} {f['what']}")
    if not new_violations:
        # (a violating tree may legitimately starve the monitors: violations are reported first)
        if merged.infra:
            for m in merged.infra:
                log("INFRA:", m)
            print(f"INFRASTRUCTURE-FAILURE property={prop}: {merged.infra[0]}")
            return 2
        for name, need in floors:
            have = merged.counters.get(name, merged.cover.get(name, 0))
            if name == "distinct_nontrivial":
                have = len(merged.distinct)
            if have < need:
                print(f"INFRASTRUCTURE-FAILURE property={prop}: monitor floor not met: {name}={have} < {need}")
                return 2
    if new_violations:
        shown = set()
        for v in new_violations:
            if v["replay"] in shown:
                continue
            shown.add(v["replay"])
            if len(shown) <= 10:
                print(f"VIOLATION property={prop} replay={v['replay']}")
                log("   ", v.get("case", {}).get("why", "")[:300])
        log(f"{len(new_violations)} violating evaluations, {len(shown)} distinct replays")
        return 1
    print(f"OK property={prop} tier={tier} seed={seed} evaluations={cov['evaluations']} distinct_nontrivial={cov['distinct_nontrivial']} inconclusive={len(merged.inconclusive)} wall_s={ev['wall_s']}")
    return 0


# ---------------------------------------------------------------------------------------------------
# per-property drivers

DIFF_RULE = ("cases = (program, input, cell width) drawn from the committed corpus (always in full) plus seeded generators "
             "(grammar-random, structured idioms, register-pressure systems, roaming, scans, mutants); each case is first run on the "
             "harness' own canonical interpreter and kept only if that run halts (or provably cycles, where the property speaks of "
             "divergence) within the step cap; one evaluation = one execution of a real hpbf back end in a forked child with the "
             "shared read/write event log compared against the canonical event sequence. distinct_nontrivial counts distinct "
             "(program, input, width) triples whose canonical run executed >= 1 loop iteration and >= 1 I/O event.")

DIFF_ASSUME = [
    "the harness' canonical interpreter (spec.rs, written from the property text; cross-checked against check.py's Python interpreter on a sample)",
    "programs whose canonical run exceeds the step cap are skipped and counted, never passed",
    "the watchdog is wall-clock; a firing is only a verdict after an isolated re-run with a 10x ceiling",
]


def tier_counts(tier, quick, thorough):
    return thorough if tier == "thorough" else quick


_SPEC_CACHE = {}


def py_spec(code, inp, bits, cap=400000):
    key = (code, bytes(inp), bits, cap)
    if key not in _SPEC_CACHE:
        _SPEC_CACHE[key] = _py_spec(code, inp, bits, cap)
    return _SPEC_CACHE[key]


def _py_spec(code, inp, bits, cap):
    """Second, independent canonical interpreter (dict tape). Returns event list or None if cap hit."""
    mask = (1 << bits) - 1
    stack, match = [], {}
    for i, c in enumerate(code):
        if c == '[':
            stack.append(i)
        elif c == ']':
            j = stack.pop()
            match[i] = j
            match[j] = i
    tape, p, pc, ip, ev, steps = {}, 0, 0, 0, [], 0
    n = len(code)
    while pc < n:
        steps += 1
        if steps > cap:
            return None
        c = code[pc]
        if c == '+':
            tape[p] = (tape.get(p, 0) + 1) & mask
        elif c == '-':
            tape[p] = (tape.get(p, 0) - 1) & mask
        elif c == '>':
            p += 1
        elif c == '<':
            p -= 1
        elif c == '.':
            ev.append(tape.get(p, 0) & 0xff)
        elif c == ',':
            if ip < len(inp):
                tape[p] = inp[ip]
                ev.append(0x100 | inp[ip])
                ip += 1
            else:
                tape[p] = 0
                ev.append(0x200)
        elif c == '[':
            if tape.get(p, 0) == 0:
                pc = match[pc]
        elif c == ']':
            if tape.get(p, 0) != 0:
                pc = match[pc]
        pc += 1
    return ev


_PREFIX_CACHE = {}


def py_spec_prefix(code, inp, bits, cap=20000):
    key = (code, bytes(inp), bits, cap)
    if key not in _PREFIX_CACHE:
        _PREFIX_CACHE[key] = _py_spec_prefix(code, inp, bits, cap)
    return _PREFIX_CACHE[key]


def _py_spec_prefix(code, inp, bits, cap):
    """Canonical events of the first `cap` steps (for diverging programs): (events, halted)."""
    mask = (1 << bits) - 1
    stack, match = [], {}
    for i, c in enumerate(code):
        if c == '[':
            stack.append(i)
        elif c == ']':
            j = stack.pop()
            match[i] = j
            match[j] = i
    tape, p, pc, ip, ev, steps = {}, 0, 0, 0, [], 0
    n = len(code)
    while pc < n and steps < cap:
        steps += 1
        c = code[pc]
        if c == '+':
            tape[p] = (tape.get(p, 0) + 1) & mask
        elif c == '-':
            tape[p] = (tape.get(p, 0) - 1) & mask
        elif c == '>':
            p += 1
        elif c == '<':
            p -= 1
        elif c == '.':
            ev.append(tape.get(p, 0) & 0xff)
        elif c == ',':
            if ip < len(inp):
                tape[p] = inp[ip]
                ip += 1
            else:
                tape[p] = 0
        elif c == '[':
            if tape.get(p, 0) == 0:
                pc = match[pc]
        elif c == ']':
            if tape.get(p, 0) != 0:
                pc = match[pc]
        pc += 1
    return bytes(ev), pc >= n


def cross_check_oracle(binary, prop, seed, n):
    """Run the Rust spec on generated programs (hv specdump) and compare with py_spec."""
    r = subprocess.run([binary, "specdump", "--prop", prop, "--seed", str(seed), "--count", str(n), "--corpus", os.path.join(ROOT, "corpus")],
                       capture_output=True, text=True, env=ENV)
    agree = disagree = skipped = 0
    bad = []
    for line in r.stdout.splitlines():
        parts = line.split("\t")
        if len(parts) != 5:
            continue
        bits, inhex, status, evs, code = parts
        code = bytes.fromhex(code).decode("utf-8")
        if status != "halted":
            skipped += 1
            continue
        want = py_spec(code, bytes.fromhex(inhex), int(bits))
        if want is None:
            skipped += 1
            continue
        got = [int(x) for x in evs.split(",")] if evs else []
        if want[:len(got)] == got and (len(want) == len(got) or len(got) == 4096):
            agree += 1
        else:
            disagree += 1
            bad.append({"program": code, "input_hex": inhex, "bits": int(bits)})
    return agree, disagree, skipped, bad


def check_diff(prop, tier, seed, level="exploration", profiles=("release",), quick=(24000, 90), thorough=(500000, 900), floors=(), extra=(), sanitize=False, memcheck=False, miri=False):
    t0 = time.time()
    merged = Merge()
    count, secs = tier_counts(tier, quick, thorough)
    bins = {p: build(p) for p in profiles}
    for p in profiles:
        res = run_shards(bins[p], "diff", prop, p, seed, tier, NCPU, count, secs, extra=extra)
        merged.add(p, res)
    if sanitize and tier == "thorough":
        # second opinion: AddressSanitizer build (nightly), guard allocator off, a report aborts the child
        a = build("asan")
        res = run_shards(a, "diff", prop, "asan", seed + 1, tier, NCPU, max(2000, count // 25), 600, extra=extra,
                         env_extra={"ASAN_OPTIONS": "abort_on_error=1:halt_on_error=1:detect_leaks=0", "HV_ALLOC_PASS": "1"})
        merged.add("asan", res)
        merged.counters["asan_evaluations"] = merged.stage_counters.get("asan", {}).get("evaluations", 0)
    if miri and tier == "thorough":
        # UB interpreter on a reduced in-process workload (no fork under Miri; JIT excluded)
        m = build_miri()
        res = run_shards(m, "mdiff", prop, "miri", seed + 3, tier, NCPU, 4, 3000, env_extra=MIRI_ENV)
        merged.add("miri", res)
        merged.counters["miri_evaluations"] = merged.stage_counters.get("miri", {}).get("evaluations", 0)
    if memcheck and tier == "thorough":
        # second opinion on the JIT's own loads/stores: valgrind memcheck on the release harness
        res = run_shards(bins[profiles[0]], "diff", prop, "memcheck", seed + 2, tier, NCPU, 600, 900, extra=list(extra) + ["--no-corpus"],
                         env_extra={"HV_ALLOC_PASS": "1"},
                         wrapper=["valgrind", "--tool=memcheck", "--error-exitcode=99", "--trace-children=yes", "--child-silent-after-fork=no", "-q", "--leak-check=no"])
        merged.add("memcheck", res)
        merged.counters["memcheck_evaluations"] = merged.stage_counters.get("memcheck", {}).get("evaluations", 0)
    agree, disagree, skipped, bad = cross_check_oracle(bins[profiles[0]], prop, seed, 150 if tier == "quick" else 1000)
    merged.counters["oracle_crosscheck_agree"] = agree
    merged.counters["oracle_crosscheck_disagree"] = disagree
    merged.counters["oracle_crosscheck_skipped"] = skipped
    if disagree:
        merged.infra.append(f"the two canonical interpreters disagree on {disagree} programs, e.g. {bad[0]}")
    return finish(prop, tier, seed, level, merged, t0, DIFF_RULE, DIFF_ASSUME,
                  floors=list(floors) + [("distinct_nontrivial", 50), ("oracle_crosscheck_agree", 20)])


PROP_RULES = {
    "C09": ("one case = one random history (300 operations: mov / read / write / make_accessible / check / check_ptr / current_ptr+set_current_ptr, "
            "offsets of both signs, ranges extending below, above and on both sides of the allocation, pointer parked up to 2^40 cells away for reads and "
            "checks) on a fresh hpbf::runtime::Memory, at one width, under one allocator placement (guard page right / left / system); after every "
            "operation the touched cell is compared with a HashMap model, after every operation that allocated all model cells and all promised ranges "
            "are re-checked. distinct_nontrivial counts distinct (seed, width, history index) triples (capped sample per shard); every history contains writes and growth."),
    "C14": ("evaluations = individual postcondition checks of wrapping_div / wrapping_inv / wrapping_pow / conversions / shifts written from their definitions; "
            "8 bit: all 65536 (n,d) pairs and all (base,exp) pairs; 16 bit: all divisors x 256 numerators (quick) or all 2^32 pairs (thorough); 32/64 bit: every "
            "(tz(n),tz(d)) grid cell plus random and boundary operands. distinct_nontrivial counts distinct sampled (width,n,d) operand pairs outside the exhaustive part."),
    "C15": ("one case = one random expression pair built only through the public Expr API (val, var, add, mul, neg, half, normalize, symb_evaluate) with "
            "coefficients biased to 1, -1, 2^(w-1), 2^(w-1)+-1 and few variable names (so x*x is common), evaluated under 8 assignments chosen to hit the "
            "half-modulus logic; each operation's value is compared with arithmetic on the operand values and every decomposition is recomposed. "
            "distinct_nontrivial counts distinct expressions with >= 2 terms of which one is a product of >= 2 variables."),
    "C18": ("one case = one random history (120 operations over a pool of up to 5 vectors: constructors, push, extend, clear, retain, retain_mut, dedup, sort, "
            "clone, eq/cmp/hash, index, iter, iter_mut, by-value iteration consumed fully / partly / not at all, drop) for inline capacity N in {1,2,4} and element "
            "types with (drop-tracked, boxed) and without destructor; after every operation the slice view is compared with a Vec model and the number of live tracked "
            "elements with the number held. distinct_nontrivial counts distinct (seed, N, element type, history index) tuples (capped sample per shard)."),
}

PROP_ASSUME = {
    "C09": ["writes and requested ranges stay within 2^17 cells of touched territory so the model never asks for gigabytes (the only restriction on the quantifier)",
            "guard pages detect out-of-allocation accesses of the tape; accesses landing inside another live allocation are not detected (one mapping per allocation makes that unlikely)"],
    "C14": ["u128 reference arithmetic in the harness"],
    "C15": ["value-level equality under sampled assignments (8 per expression), not symbolic equality"],
    "C18": ["Vec as the model", "leaks are detected by the live-element table, UB by the Miri stage"],
}


def check_props(prop, tier, seed, cmd, quick, thorough, miri_quick=None, miri_thorough=None, extra=(), floors=()):
    t0 = time.time()
    merged = Merge()
    count = thorough if tier == "thorough" else quick
    b = build("release")
    res = run_shards(b, cmd, prop, "release", seed, tier, NCPU, count, 3600, extra=extra)
    merged.add("release", res)
    mcount = miri_thorough if tier == "thorough" else miri_quick
    if mcount:
        m = build_miri()
        res = run_shards(m, cmd, prop, "miri", seed, tier, NCPU, mcount[0], 3600, extra=list(extra) + list(mcount[1]), env_extra=MIRI_ENV)
        merged.add("miri", res)
        merged.counters["miri_histories_or_cases"] = merged.stage_counters.get("miri", {}).get("evaluations", 0)
    return finish(prop, tier, seed, "exploration", merged, t0, PROP_RULES[prop], PROP_ASSUME[prop] + ["Miri (nightly) as the UB oracle for the reduced workload"],
                  floors=list(floors) + [("distinct_nontrivial", 20)])


def check_cmd(prop, tier, seed, cmd, quick, thorough, level, rule, assumptions, floors=(), extra=(), profiles=("release",), secs=(90, 1500)):
    t0 = time.time()
    merged = Merge()
    count = thorough if tier == "thorough" else quick
    for p in profiles:
        b = build(p)
        res = run_shards(b, cmd, prop, p, seed, tier, NCPU, count, secs[1] if tier == "thorough" else secs[0], extra=extra)
        merged.add(p, res)
    return finish(prop, tier, seed, level, merged, t0, rule, assumptions, floors=list(floors))


C05_RULE = ("cases = (program, input, width) from divergent idioms (empty loop on a non-zero cell, even step on an odd counter, wrap-dependent loops, printing loops, "
            "input-dependent divergence, divergence nested in finite loops / behind ifs / after output), mutants and the corpus; a case is used only if the canonical "
            "interpreter either halts or proves divergence by exact recurrence of (pc, pointer, tape, remaining input) with Brent's algorithm. One evaluation = one forked "
            "execution of Executable::execute: for a provably diverging case the child is observed for a window of max(100 ms, 100 x canonical time) and then killed: returning "
            "inside the window is a violation; the shared-memory event log at the end of the window must equal the canonical events (silent cycle: exactly; printing cycle: "
            "common prefix equal and progress into the cycle); missing events are only a verdict after an isolated re-run with a 10x window. For halting cases every back end must return (5 s ceiling, 50 s alone) with the canonical log. "
            "distinct_nontrivial counts distinct provably diverging (program, input, width) triples.")
C17_RULE = ("cases = growth-heavy programs (first allocation, grow left, grow right, both, far moves, scans, input-driven growth, generated roaming) x 4 back ends x levels {0,2}; a clean run "
            "counts the N allocations made during execute; then for k = 1..N (capped at 60 quick / 400 thorough) one forked run in which the k-th allocation returns null. Accepted endings: SIGABRT "
            "(allocation-failure abort) or a caught panic, with the event log a prefix of the canonical one; a memory fault (handler installed for SIGSEGV/SIGBUS), any other signal or a normal return is a violation. "
            "distinct_nontrivial counts distinct (program, width, back end, level, k) with the failing request actually reached. A second stage asks the tape API for cells no allocator can provide: "
            "21 positions at +-(2^60, 2^61, 2^62) +- 1 and at the ends of isize x 4 widths x {fresh tape, 21 written cells} x {mov + write, make_accessible, write at offset} under the plain allocator, "
            "each in a forked child; accepted endings are the abort and a panic, a normal return or a memory fault is a violation.")


C11_RULE = ("cases = source programs from the corpus and the C03 generator mix (structured idioms, register-pressure systems, pressure x pointer moves, mutants, scans, roaming); every case is "
            "translated at levels 0..3 with both generator settings (2 registers + fusion, 11 registers without); one evaluation = one bytecode program checked by (a) the static validator: CFG from the "
            "branch offsets, every branch target in 0..=len, every tape operand inside [min_accessed,max_accessed] containing 0, every temporary index < temps, forward must-be-defined analysis "
            "(no read before write on any path), backward liveness (every register temporary needed after a non-branch instruction and not defined by it has its bit in live[i]), live.len()==insts.len(); "
            "and (b) the dynamic shadow: an independent bytecode interpreter in adversarial-contract mode (temporaries start poisoned, registers not declared live are destroyed at every instruction) whose "
            "event log must equal the canonical run. The validator additionally runs on the bytecode held by every executor (hook H2) in all differential checks. distinct_nontrivial counts distinct (program, width) with at least one loop.")
C12_RULE = ("cases = source strings: every string over {[,],+} up to length 7 (3280, exhaustive), bracket soup with multi-byte UTF-8, near-valid programs with one bracket flipped/removed/added, "
            "valid generated programs, nesting depth 20..300; each string is also run with comment characters (ASCII, control, NUL, 2/3/4-byte UTF-8, combining marks) inserted. One evaluation = one "
            "Executor::create (+ execution for balanced strings) of IrInterpreter / BcInterpreter / BaseJitCompiler at a sampled width and level, in a forked child on the main-thread stack, compared with a "
            "15-line reference matcher over chars(): accept iff balanced, else LoopNotOpened at the first unmatched ']' or LoopNotClosed at the innermost unclosed '[' (character index), same verdict and "
            "command-relative position with comments, same event log with comments; the in-place interpreter must not panic. distinct_nontrivial counts distinct strings with >= 2 brackets.")
C13_RULE = ("cases = valid programs (corpus, generator mix, nesting depth 20..300) x width x level; one evaluation = one compilation of all executors (IR, both bytecodes, machine code in all four mode "
            "combinations) under catch_unwind in a forked child; artefact hashes (Debug of ir::Program, Debug of both bc::Program, print_mc bytes) are compared between consecutive compilations, between "
            "compilations separated by other compilations in the same process, and - for a shared index range compiled by all 16 worker processes started with setarch -R - across processes; the bytecode held by "
            "each executor must equal the public translate output; each executor is executed six times on fresh contexts (plain, budget 7, output refused at event 1, plain, budget 2^40, plain) and the plain logs compared; "
            "allocator calls and allocated bytes of compilation are measured along 17 fixed parameterised families (n = 4..64) and along generated chain families (a random pointer-disciplined stage repeated n = 4, 8, 16, 32 times, at top level or inside an input-driven loop), every compilation in a forked child under a 6 GiB address-space limit and a 60 s watchdog; a compilation that does not finish, or two consecutive size steps on which a measure grows by more than (n1/n0)^5 plus a fixed slack, is a violation (one step above the envelope followed by flat cost is a bounded one-off, not growth). Runs in the release and the debug-assertion/overflow-check profile. "
            "distinct_nontrivial counts distinct (program, width) with a loop.")


# ---------------------------------------------------------------------------------------------------
# C16: the command line

import random
import tempfile
from concurrent.futures import ThreadPoolExecutor
import threading

BACKENDS = {"--inplace": "inplace", "--ir-int": "irint", "--bc-int": "bcint", "--base-jit": "basejit"}
PRINTS = ["--print-ir", "--print-bc", "--print-jit-bc", "--print-jit-mc"]
WIDTH_WITNESS = "+++++[>+<---]>."

C16_PROGRAMS = [
    ("++++++++[>++++++++<-]>+.+.+.", b""),
    (",[.,]", b"hello"),
    (",>,<[->+<]>.", b"\x03\x04"),
    ("--[>+<--]>.", b""),
    ("+++++[>+<---]>.", b""),
    ("-[>+<-----]>.", b""),
    (",[>+>+<<-]>.>.", b"A"),
    ("++[>+++[>++<-]<-]>>.", b""),
    (">,[>,]<[.<]", b"stressed"),
    ("+[->,.<]", b""),
    ("++++++++++[>++++++++++<-]>[<+>-]<.[-]>+[<+++>-]<.", b""),
    (",[-[-[-[.[-]]]]]", b"\x07"),
]


def c16_model(flags):
    """The property's model of the flags: last flag of each group wins; defaults 8 bit, base JIT, level 2."""
    width, backend, level, limit, static, printer = 8, "basejit", 2, None, False, None
    i = 0
    while i < len(flags):
        f = flags[i]
        if f in ("-i8", "-i16", "-i32", "-i64"):
            width = int(f[2:])
        elif f in BACKENDS:
            backend, printer = BACKENDS[f], None
        elif f in PRINTS:
            printer, backend = f, None
        elif f in ("-O0", "-O1", "-O2", "-O3", "-O4", "-O5"):
            level = int(f[2:])
        elif f == "--limit":
            limit = int(flags[i + 1])
            i += 1
        elif f == "--static":
            static = True
        i += 1
    return width, backend, level, limit, static, printer


def check_c16(tier, seed):
    t0 = time.time()
    hpbf = build_repo_cli()
    merged = Merge()
    rng = random.Random(seed * 7919 + 16)
    n = 12000 if tier == "thorough" else 2000
    tmpdir = tempfile.mkdtemp(prefix="c16_", dir=OUT if os.path.isdir(OUT) else None)
    C = merged.counters
    for k in ("evaluations", "held", "violated", "strace_observed", "jit_mapping_seen", "static_mapping_seen", "print_runs", "error_runs", "limit_runs", "static_runs"):
        C[k] = 0

    def run(argv, stdin_bytes, use_strace=False):
        inp = os.path.join(tmpdir, f"in_{threading_id()}_{rng_local().random()}.bin")
        with open(inp, "wb") as f:
            f.write(stdin_bytes)
        fd = os.open(inp, os.O_RDONLY)
        trace = None
        cmd = [hpbf] + argv
        # machine code printed by --print-jit-mc embeds absolute addresses: run without ASLR
        cmd = ["setarch", "x86_64", "-R"] + cmd
        if use_strace:
            trace = inp + ".strace"
            cmd = ["strace", "-f", "-e", "trace=mmap", "-o", trace] + cmd
        # own process group: on a timeout the whole group is killed (the binary runs under
        # setarch / strace wrappers; killing only the wrapper would leave hpbf spinning)
        pr = subprocess.Popen(cmd, stdin=fd, stdout=subprocess.PIPE, stderr=subprocess.PIPE, start_new_session=True)
        # bounded capture: a run that ignores its limit can print without end, and an unbounded
        # communicate() buffer would exhaust memory long before the timeout
        CAP = 8 << 20
        bufs = {"out": bytearray(), "err": bytearray()}
        flood = threading.Event()

        def pump(stream, key):
            while True:
                chunk = stream.read(65536)
                if not chunk:
                    break
                if len(bufs[key]) < CAP:
                    bufs[key] += chunk
                else:
                    flood.set()
                    try:
                        os.killpg(pr.pid, 9)
                    except ProcessLookupError:
                        pass
        th = [threading.Thread(target=pump, args=(pr.stdout, "out")), threading.Thread(target=pump, args=(pr.stderr, "err"))]
        for t_ in th:
            t_.start()
        try:
            pr.wait(timeout=60)
            timed_out = False
        except subprocess.TimeoutExpired:
            timed_out = True
            try:
                os.killpg(pr.pid, 9)
            except ProcessLookupError:
                pass
            pr.wait()
        for t_ in th:
            t_.join()
        if timed_out or flood.is_set():
            rc, out, err, off = None, b"", b"", -1
        else:
            out, err = bytes(bufs["out"]), bytes(bufs["err"])
            off = os.lseek(fd, 0, os.SEEK_CUR)
            rc = pr.returncode
        os.close(fd)
        tr = ""
        if trace and os.path.exists(trace):
            tr = open(trace, errors="replace").read()
            os.remove(trace)
        os.remove(inp)
        return rc, out, err, off, tr

    _tl = threading.local()

    def threading_id():
        return threading.get_ident()

    def rng_local():
        if not hasattr(_tl, "r"):
            _tl.r = random.Random(threading.get_ident())
        return _tl.r

    # witnesses, verified at run time
    wit = {}
    for w in (8, 16, 32, 64):
        rc, out, _, _, _ = run(["--print-ir", "-O1", f"-i{w}", WIDTH_WITNESS], b"")
        wit[w] = out
    width_witness_ok = len(set(wit.values())) == 4
    C["width_witness_distinct"] = int(width_witness_ok)
    lvl_prog = None
    for cand in [",>+++>,>,>+++>+>,[<<[<<<<+++++>>>>>>>+<<<-]>>>[-<<<+>>>]<<<<<<[->>>>+++>>+<<<<<<]>>>>>>[<<<<<<+>>>>>>-]<<<<<<[->>>++>>>+<<<<<<]>>>>>>[<<<<<<+>>>>>>-]<-]<<<<<<.>.>.>.>.>.",
                 ">>,<[-]>[-<<++++++++>+>]<[>+<-]<[>>[-]+++[[>[-]<<[>>+<<-]>>[-<<+>>][+-]<<[->>+++++++++++<<]>-]<++++>-]>[-]<[>+<-]<[>+<-]>>[<<+>>-]<<<[-]]>[>+<<+++++++>-]>.<<.>.<..>.>.",
                 ">>>>>+++++<<<+>>>+[<<<<<[>>>+++++>>>++++++++<<++<<<<-]>>>>>-]>,[<[-]>[<<++++>+>-]<[->+<]<<<[-]<[->+++<]>[-<+>]<++<[>+++++++<-]>>>>>>-]..<<<<<<.>>>>>.<<<<<.>.>.>.>.>.>.",
                 ",[>>,<<<<<[>>>>+<<<<-]>[<+>-]>>>>[<<<<<+>>>>>-]<.<-]", "+>+[[[<.]+.]-<.]", ",[>+>+<<-]>[<+>-]>[<<+>>-]<<.", "++[>+++[>++<-]<-]>>.[>+<-]>.",
                 "+[,>,>,>[-]>[-]>[-]<<<<<[>[>>+>+<<<-]>>>[<<<+>>>-]<<<<-]>[>[>+>+<<-]>>[<<+>>-]<<<-]>>[>+<-]>[-[>+<<++>-]<+>>[<+>-]<]<.<<<[-]+]"]:
        outs = [run(["--print-ir", f"-O{l}", cand], b"")[1] for l in range(4)]
        if len(set(outs)) == 4:
            lvl_prog = (cand, outs)
            break
    C["level_witness_found"] = int(lvl_prog is not None)

    cases = []
    for i in range(n):
        code, stdin = rng.choice(C16_PROGRAMS)
        kind = rng.choices(["run", "print", "unbalanced", "missing_file", "limit", "static", "level_witness", "width_witness", "limit_divergent"], weights=[38, 12, 10, 6, 10, 8, 7, 7, 8])[0]
        flags = []
        for _ in range(rng.randint(0, 3)):
            flags.append(rng.choice(["-i8", "-i16", "-i32", "-i64"]))
        for _ in range(rng.randint(0, 2)):
            flags.append(rng.choice(list(BACKENDS)))
        for _ in range(rng.randint(0, 2)):
            flags.append(rng.choice(["-O0", "-O1", "-O2", "-O3", "-O4", "-O5"]))
        rng.shuffle(flags)
        if kind == "print":
            flags.insert(rng.randint(0, len(flags)), rng.choice(PRINTS))
            # a later backend flag would override the print option: keep the print option last among the two groups
            flags = [f for f in flags if f not in BACKENDS] + []
        if kind == "level_witness" and lvl_prog:
            code, stdin = lvl_prog[0], b""
            flags = [f for f in flags if f not in BACKENDS] + ["--print-ir"]
        if kind == "width_witness":
            code, stdin = WIDTH_WITNESS, b""
            flags = [f for f in flags if f not in BACKENDS and not f.startswith("-O")] + ["--print-ir", "-O1"]
        if kind == "limit":
            flags += ["--limit", str(rng.choice([0, 1, 3, 10, 100, 10 ** 6, 10 ** 12]))]
            if rng.random() < 0.3:
                # both mode flags: the limit must still be honoured
                flags.insert(rng.choice([k for k in range(len(flags) + 1) if k == 0 or flags[k - 1] != "--limit"]), "--static")
        if kind == "limit_divergent":
            # prints, then never ends canonically: only the limit makes it return
            code, stdin = rng.choice([("++++++++[>++++++++<-]>+.[]", b""), ("+[.]", b""), (",[.[-]+]", b"A"), ("+++[>+.<]", b""), ("+[>+.<[-]+]", b"")])
            if rng.random() < 0.25:
                # an earlier --limit that the last one overrides
                flags = ["--limit", str(rng.choice([0, 7, 10 ** 9]))] + flags
            flags += ["--limit", str(rng.choice([0, 0, 1, 10, 1000, 100000]))]
            if rng.random() < 0.4:
                flags.insert(rng.choice([k for k in range(len(flags) + 1) if k == 0 or flags[k - 1] != "--limit"]), "--static")
        if kind == "static":
            flags += ["--static"]
        if code in ("--[>+<--]>.", "+++++[>+<---]>.", "-[>+<-----]>.") and kind not in ("width_witness", "level_witness", "print"):
            # wrap-dependent: 2^31+ iterations at 32/64 bit; pin the width to 8 or 16
            flags.append(rng.choice(["-i8", "-i16"]))
        if kind == "unbalanced":
            code = rng.choice(["[" + code, code + "]", code + "[", "]" + code])
        # split the code between files and bare arguments
        pieces = []
        rest = code
        while rest:
            k = rng.randint(1, max(1, len(rest)))
            pieces.append(rest[:k])
            rest = rest[k:]
            if len(pieces) >= 4:
                pieces.append(rest)
                rest = ""
        pieces = [p for p in pieces if p]
        cases.append((i, kind, flags, pieces, code, stdin))

    def build_argv(i, flags, pieces, missing):
        argv = list(flags)
        files = []
        code_args = []
        r = random.Random(seed * 1000003 + i)
        for j, p in enumerate(pieces):
            if r.random() < 0.4:
                fn = os.path.join(tmpdir, f"c_{i}_{j}.bf")
                with open(fn, "w") as f:
                    f.write(p)
                files.append(fn)
                code_args += [r.choice(["-f", "--file"]), fn]
            else:
                code_args.append(p)
        if missing:
            code_args.insert(r.randint(0, len(code_args)), os.path.join(tmpdir, "does_not_exist.bf"))
            code_args.insert(code_args.index(os.path.join(tmpdir, "does_not_exist.bf")), "-f")
        # interleave flags and code pieces (order of code pieces is kept)
        out = []
        fl = list(argv)
        # keep "--limit N" together
        units = []
        k = 0
        while k < len(fl):
            if fl[k] == "--limit":
                units.append([fl[k], fl[k + 1]])
                k += 2
            else:
                units.append([fl[k]])
                k += 1
        cu = []
        k = 0
        while k < len(code_args):
            if code_args[k] in ("-f", "--file"):
                cu.append([code_args[k], code_args[k + 1]])
                k += 2
            else:
                cu.append([code_args[k]])
                k += 1
        while units or cu:
            if units and (not cu or r.random() < 0.5):
                out += units.pop(0)
            else:
                out += cu.pop(0)
        return out, files

    def one(case):
        i, kind, flags, pieces, code, stdin = case
        argv, files = build_argv(i, flags, pieces, kind == "missing_file")
        width, backend, level, limit, static, printer = c16_model(flags)
        use_strace = (i % 8 == 0) and kind in ("run", "static", "limit")
        rc, out, err, off, tr = run(argv, stdin, use_strace)
        for f in files:
            os.remove(f)
        why = None
        info = {"strace": use_strace}
        if rc is None:
            if limit is not None and limit <= 10 ** 6:
                return (case, argv, "violated", f"--limit {limit} given (flags {flags}) but the process did not return within 60 s (or printed more than 8 MiB)", info)
            return (case, argv, "inconclusive", "timeout (60 s) or more than 8 MiB of output", info)
        if kind == "missing_file":
            if rc != 1 or not err or out:
                why = f"unreadable file: exit {rc}, stderr {len(err)} bytes, stdout {out[:20]!r}; expected exit 1, a diagnostic and no output"
        elif kind == "unbalanced" and (backend != "inplace"):
            if rc != 1 or not err or out:
                why = f"unbalanced brackets with a parsing back end: exit {rc}, stderr {len(err)} bytes, stdout {out[:20]!r}; expected exit 1, a diagnostic and no output"
        elif kind == "unbalanced":
            if rc not in (0, 1):
                why = f"in-place on unbalanced code: exit {rc}"
        elif printer is not None:
            ref_rc, ref_out, _, _, _ = run([printer, f"-O{level}", f"-i{width}", code], b"")
            if rc != 0 or out != ref_out or ref_rc != 0:
                why = f"{printer} with flags {flags}: output differs from `{printer} -O{level} -i{width}` (level/width/default handling), exit {rc}"
            elif off != 0:
                why = f"{printer} consumed {off} bytes of stdin"
            elif kind == "width_witness" and out != wit[width]:
                why = f"width witness printed the IR of another width than {width}"
            elif kind == "level_witness" and lvl_prog and out != lvl_prog[1][min(level, 3)]:
                why = f"level witness printed the IR of another level than min({level},3)"
        elif kind == "limit_divergent":
            pref, halted = py_spec_prefix(code, stdin, width)
            if rc != 0:
                why = f"--limit {limit} on a diverging program: exit status {rc}"
            elif pref[:len(out)] != out[:len(pref)]:
                why = f"--limit {limit} on a diverging program: stdout {out[:20]!r} is not a prefix of the canonical output {pref[:20]!r}"
        else:
            want = py_spec(code, stdin, width, cap=3000000)
            if want is None:
                return (case, argv, "inconclusive", "canonical run too long", info)
            want_out = bytes(e for e in want if e < 0x100)
            if rc != 0:
                why = f"exit status {rc} on success path, stderr {err[:100]!r}"
            elif limit is not None and limit < 10 ** 6:
                if want_out[:len(out)] != out:
                    why = f"--limit {limit}: stdout {out[:20]!r} is not a prefix of the canonical output {want_out[:20]!r}"
            elif out != want_out:
                why = f"stdout {out[:24]!r} differs from the canonical output {want_out[:24]!r} for width {width}, back end {backend}, level {level}"
            if why is None and use_strace and tr:
                jit_seen = any("PROT_EXEC" in l and "MAP_ANONYMOUS" in l for l in tr.splitlines())
                big = False
                for l in tr.splitlines():
                    if "mmap(NULL, " in l and "MAP_ANONYMOUS" in l:
                        try:
                            sz = int(l.split("mmap(NULL, ")[1].split(",")[0])
                            if sz >= (1 << 29):
                                big = True
                        except ValueError:
                            pass
                info.update({"jit_seen": jit_seen, "big": big})
                if jit_seen != (backend == "basejit"):
                    why = f"back end selection: anonymous PROT_EXEC mapping {'seen' if jit_seen else 'not seen'} but the flags select {backend}"
                elif limit is None and big != static:
                    why = f"static mode: a >= 512 MiB anonymous mapping was {'seen' if big else 'not seen'} but --static is {'on' if static else 'off'}"
        return (case, argv, "violated" if why else "held", why, info)

    with ThreadPoolExecutor(max_workers=NCPU) as ex:
        results = list(ex.map(one, cases))
    os.makedirs(os.path.join(OUT, "replays", "C16"), exist_ok=True)
    for (case, argv, verdict, why, info) in results:
        i, kind, flags, pieces, code, stdin = case
        C["evaluations"] += 1
        C[f"kind.{kind}"] = C.get(f"kind.{kind}", 0) + 1
        if info.get("strace"):
            C["strace_observed"] += 1
            C["jit_mapping_seen"] += int(bool(info.get("jit_seen")))
            C["static_mapping_seen"] += int(bool(info.get("big")))
        merged.distinct.add(hash((tuple(flags), code, kind)))
        if verdict == "held":
            C["held"] += 1
        elif verdict == "inconclusive":
            merged.inconclusive.append(f"{argv}: {why}")
        else:
            C["violated"] += 1
            rp = os.path.join(OUT, "replays", "C16", f"C16-{i}-{seed}.json")
            body = {"property": "C16", "kind": "cli", "argv": [a.replace(tmpdir, "$TMP") for a in argv], "flags": flags, "pieces": pieces, "code": code, "stdin_hex": stdin.hex(), "case_kind": kind, "why": why}
            json.dump(body, open(rp, "w"))
            merged.violations.append({"replay": rp, "signature": kind, "case": body, "stage": "cli"})
        if len(merged.samples) < 8 and i % 97 == 3:
            merged.samples.append({"argv": [a.replace(tmpdir, "$TMP") for a in argv], "stdin_hex": stdin.hex(), "kind": kind, "verdict": verdict})
    try:
        os.rmdir(tmpdir)
    except OSError:
        pass
    return finish("C16", tier, seed, "exploration", merged, t0,
                  ("one case = one invocation of target/release/hpbf (rebuilt from /repo) with a random subset and order of width / back end / level flags (repeated flags allowed), the code of one of "
                   f"{len(C16_PROGRAMS)} programs split at random between -f files and bare arguments interleaved with the flags, and stdin from a regular file; kinds: plain run, print option, unbalanced code, unreadable file, "
                   "--limit, --static, level witness and width witness through --print-ir. Oracle: check.py's canonical interpreter on the model configuration (last flag wins; defaults 8 bit, base JIT, -O2; -O4/-O5 = -O3). "
                   "Every 8th run is traced with strace: an anonymous PROT_EXEC mapping must be present iff the JIT is selected, a >= 512 MiB anonymous mapping iff --static. Print options must leave the stdin file offset at 0. "
                   "distinct_nontrivial counts distinct (flag list, program, kind)."),
                  ["check.py's Python canonical interpreter", "'last flag wins' for repeated flags (the statement only gives defaults)", "strace as the observer of which back end ran"],
                  floors=[("width_witness_distinct", 1), ("level_witness_found", 1), ("strace_observed", 20), ("jit_mapping_seen", 3), ("distinct_nontrivial", 50)])


def check_c13(tier, seed):
    t0 = time.time()
    merged = Merge()
    count = 6000 if tier == "thorough" else 500
    shared = 1500 if tier == "thorough" else 200
    art = {}
    nproc = {}
    for prof in ("release", "dbg"):
        b = build(prof)
        res = run_shards(b, "c13", "C13", prof, seed, tier, NCPU, count if prof == "release" else count // 2, 3000,
                         extra=["--shared", str(shared)], wrapper=["setarch", "x86_64", "-R"])
        merged.add(prof, res)
        for r in res:
            for k, h in r.get("artefacts", []):
                kk = prof + ":" + k
                nproc[kk] = nproc.get(kk, 0) + 1
                if kk in art and art[kk] != h:
                    merged.violations.append({"replay": os.path.join(OUT, "replays", "C13", "crossproc-" + k.replace(":", "_") + ".json"), "signature": "cross-process",
                                              "case": {"kind": "compile", "why": f"artefacts of {k} differ between worker processes ({prof})", "key": k}, "stage": prof})
                art.setdefault(kk, h)
    merged.counters["artefact_keys_compared_across_processes"] = len(art)
    merged.counters["min_processes_per_key"] = min(nproc.values()) if nproc else 0
    for v in merged.violations:
        if v.get("signature") == "cross-process":
            os.makedirs(os.path.dirname(v["replay"]), exist_ok=True)
            json.dump(v["case"], open(v["replay"], "w"))
    return finish("C13", tier, seed, "exploration", merged, t0, C13_RULE,
                  ["machine code embeds absolute addresses of runtime functions: processes are started without ASLR (setarch -R) so equal code means equal bytes",
                   "std HashMap seeds differ per map instance and per process, which is the perturbation the determinism claim is tested against",
                   "'super-polynomial blow-up' is restated as a polynomial (degree 5) envelope on allocator calls and allocated bytes along fixed and generated program families of up to ~3000 characters, plus completion within 60 s / 6 GiB; wall-clock is only a watchdog, and on the unchanged tree every family member compiles in well under 0.5 s"],
                  floors=[("artefact_keys_compared_across_processes", 100), ("min_processes_per_key", 3), ("growth_ratios_checked", 20), ("families_measured", 17), ("random_families_measured", 500), ("repeated_executions", 1000), ("distinct_nontrivial", 50)])


def main_for(prop, tier):
    sys.argv = [sys.argv[0], prop, tier]
    return main()


def main():
    if len(sys.argv) < 2:
        print(__doc__)
        return 2
    prop = sys.argv[1]
    tier = sys.argv[2] if len(sys.argv) > 2 else os.environ.get("VERIF_TIER", "quick")
    if tier not in ("quick", "thorough"):
        tier = "quick"
    seed = int(os.environ.get("VERIF_SEED", "1") or 1)
    if prop == "setup":
        for p in ("release", "dbg"):
            build(p)
        build_repo_cli()
        build_miri()
        return 0
    if prop == "replay":
        return replay(sys.argv[2])
    table = {
        "C01": lambda: check_diff("C01", tier, seed, floors=[("opt:motion.linear", 1), ("opt:loop.finite_symbolic", 1)]),
        "C02": lambda: check_diff("C02", tier, seed, profiles=("release", "dbg"), sanitize=True, miri=True),
        "C03": lambda: check_diff("C03", tier, seed, memcheck=True),
        "C04": lambda: check_diff("C04", tier, seed, sanitize=True, miri=True),
        "C06": lambda: check_diff("C06", tier, seed, quick=(6000, 90), thorough=(120000, 900), sanitize=True, memcheck=True, miri=True),
        "C07": lambda: check_diff("C07", tier, seed, quick=(4000, 90), thorough=(80000, 900)),
        "C08": lambda: check_diff("C08", tier, seed, level="fault_enumeration", quick=(3000, 90), thorough=(60000, 900)),
        "C05": lambda: check_cmd("C05", tier, seed, "c05", 1500, 25000, "exploration", C05_RULE, DIFF_ASSUME + [
            "non-termination is restated as: does not return within a window >= 100x the canonical time-to-cycle (a return inside the window is a definite violation; the converse is bounded)",
            "roaming divergence (never repeats a state) is outside the quantifier"], floors=[("spec.cycle_proved", 40), ("cycle.silent", 5), ("cycle.printing", 5), ("distinct_nontrivial", 20)], secs=(100, 1500)),
        "C11": lambda: check_cmd("C11", tier, seed, "c11", 1500, 40000, "exploration", C11_RULE, [
            "the validator's rules are the property's clauses; they were calibrated on the unchanged tree (no rule is stricter than what the generator does)",
            "per bytecode program the static part covers all paths; over programs it is sampling"], floors=[("bytecodes_with_spilled_temporaries", 50), ("adversarial_interpretations", 500), ("distinct_nontrivial", 50)]),
        "C12": lambda: check_cmd("C12", tier, seed, "c12", 12000, 400000, "exploration", C12_RULE, DIFF_ASSUME + ["nesting depth is bounded by 300 (the property says moderate depth)"],
                                 floors=[("kind.exhaustive<=7", 3280), ("unbalanced.not_opened", 100), ("unbalanced.not_closed", 100), ("kind.deep_balanced", 20), ("distinct_nontrivial", 50)], profiles=("release", "dbg")),
        "C13": lambda: check_c13(tier, seed),
        "C16": lambda: check_c16(tier, seed),
        "C17": lambda: check_cmd("C17", tier, seed, "c17", 24, 80, "fault_enumeration", C17_RULE, [
            "the global allocator of the harness is the only allocator hpbf sees; null is returned for exactly one request per run",
            "a SIGSEGV/SIGBUS handler turns memory faults into an attributable exit status"], floors=[("failed.zeroed_request (tape / context)", 50), ("distinct_nontrivial", 50)], secs=(300, 3000)),
        "C09": lambda: check_props("C09", tier, seed, "c09", 2000, 40000, miri_quick=(1, ["--ops", "120"]), miri_thorough=(12, ["--ops", "200"]), floors=[("growths_observed", 1000), ("requests_extending_both_sides", 10)]),
        "C14": lambda: check_props("C14", tier, seed, "c14", 200000, 5000000, miri_quick=(10, []), miri_thorough=(400, [])),
        "C15": lambda: check_props("C15", tier, seed, "c15", 8000, 600000, miri_quick=(2, []), miri_thorough=(80, [])),
        "C18": lambda: check_props("C18", tier, seed, "c18", 4000, 200000, miri_quick=(2, ["--ops", "50"]), miri_thorough=(40, ["--ops", "100"]), floors=[("drop_audits", 1000), ("by_value_iterations", 100)]),
        "C10": lambda: check_diff("C10", tier, seed, quick=(8000, 90), thorough=(160000, 900), sanitize=True),
    }
    if prop not in table:
        print(f"unknown property {prop}")
        return 2
    return table[prop]()


def replay(path):
    v = json.load(open(path))
    prop = v.get("property", "?")
    binary = build("dbg" if v.get("stage") == "dbg" else "release")
    kind = v.get("kind")
    simple = {
        "memory_history": lambda: [binary, "c09replay", "--bits", str(v["bits"]), "--hist-seed", str(v["hist_seed"]), "--index", str(v["index"]), "--ops", str(v["ops"]), "--alloc-mode", str(v["alloc_mode"])],
        "smallvec_history": lambda: [binary, "c18replay", "--n", str(v["n"]), "--tracked", "true" if v["tracked"] else "false", "--hist-seed", str(v["hist_seed"]), "--index", str(v["index"]), "--ops", str(v["ops"])],
        "bytecode": lambda: [binary, "c11replay", "--code", v["program"], "--bits", str(v["bits"]), "--input-hex", v.get("input_hex", "")],
        "compile": lambda: [binary, "c13replay", "--code", v.get("program", ""), "--bits", str(v.get("bits", 8))],
        "huge_request": lambda: [binary, "c17", "--prop", "C17", "--seed", "1", "--shard", "0", "--nshards", "1", "--count", "0", "--secs", "100", "--tier", "quick", "--out", os.path.join(OUT, "replay_c17.json"), "--replay-dir", os.path.join(OUT, "replays", "C17"), "--huge-only", "1", "--huge-case", v.get("huge_case", "")],
        "growth": lambda: [binary, "c13growth", "--family", v.get("family", "all"), "--seed", str(v.get("case_seed", 1)), "--index", str(v.get("index", 0))],
    }
    if kind in simple:
        r = subprocess.run(simple[kind]() + ["--replay-path", path], env=ENV)
        return r.returncode
    if kind in ("arith", "expr"):
        # these monitors are deterministic in (seed, shard): re-run the quick check
        return main_for(prop, "quick")
    if kind == "cli":
        hpbf = build_repo_cli()
        tmp = tempfile.mkdtemp(prefix="c16r_")
        argv = [a.replace("$TMP", tmp) for a in v["argv"]]
        # recreate the files named in argv from the pieces (in order)
        pieces = list(v["pieces"])
        k = 0
        i = 0
        while i < len(argv):
            if argv[i] in ("-f", "--file") and i + 1 < len(argv):
                if "does_not_exist" not in argv[i + 1]:
                    # the k-th code unit that is a file
                    pass
                i += 2
            else:
                i += 1
        # simplest faithful replay: write every piece that appears as a bare argument as is, every file piece in order
        bare = [a for j, a in enumerate(argv) if not a.startswith("-") and (j == 0 or argv[j - 1] not in ("-f", "--file", "--limit"))]
        filepieces = [p for p in pieces if p not in bare]
        fi = 0
        for j, a in enumerate(argv):
            if j > 0 and argv[j - 1] in ("-f", "--file") and "does_not_exist" not in a:
                open(a, "w").write(filepieces[fi] if fi < len(filepieces) else "")
                fi += 1
        r = subprocess.run(["setarch", "x86_64", "-R", hpbf] + argv, input=bytes.fromhex(v.get("stdin_hex", "")), capture_output=True)
        print("argv:", argv)
        print("exit:", r.returncode, "stdout:", r.stdout[:80], "stderr:", r.stderr[:120])
        print("recorded:", v["why"])
        print(f"VIOLATION property=C16 replay={path}  (re-run `check.py C16 quick` for the verdict of the current tree)")
        return 1
    code_file = os.path.join(OUT, "replay_code.tmp")
    os.makedirs(OUT, exist_ok=True)
    with open(code_file, "w") as f:
        f.write(v["program"])
    argv = [binary, "one", "--prop", prop, "--replay-path", path, "--code-file", code_file, "--input-hex", v.get("input_hex", ""),
            "--bits", str(v["bits"]), "--backend", v["backend"], "--level", str(v["level"]), "--mode", v["mode"],
            "--budget", str(v.get("budget", 0)), "--lo", str(v.get("lo", 0)), "--hi", str(v.get("hi", 0)),
            "--alloc-mode", str(v.get("alloc_mode", 0))]
    if "fault_at" in v:
        argv += ["--fault-at", str(v["fault_at"]), "--fault-err", "true" if v.get("fault_err") else "false", "--fault-kind", str(v.get("fault_kind", 0)), "--fault-once", str(v.get("fault_once", 0))]
    if "fail_at" in v:
        argv += ["--fail-at", str(v["fail_at"])]
    if "window_ms" in v:
        argv += ["--window-ms", str(v["window_ms"])]
    if not v.get("input_present", True):
        argv += ["--no-input"]
    if not v.get("output_present", True):
        argv += ["--no-output"]
    r = subprocess.run(argv, env=ENV)
    return r.returncode


if __name__ == "__main__":
    sys.exit(main())
