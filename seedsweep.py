#!/usr/bin/env python3
"""Re-run the quick check of its own property against every kept seeded change (regression of the
machinery's detection power after generator / harness / repository changes).

usage: seedsweep.py [--only C05,C13,...] [--skip-done]

For each /verif/seeded/<name>/: apply patch.diff to /repo (must be clean), run `check.py <prop> quick`,
restore /repo. Results go to /verif/seeded/SWEEP.json (name -> exit, wall, verif commit, repo commit).
Evidence files are restored afterwards (they must come from the unchanged tree).
"""
import json
import os
import subprocess
import sys
import time

ROOT = os.path.dirname(os.path.abspath(__file__))
OUT = os.path.join(ROOT, "seeded", "SWEEP.json")


def sh(cmd, cwd=None, timeout=7200):
    r = subprocess.run(cmd, shell=True, cwd=cwd, capture_output=True, text=True, timeout=timeout)
    return r.returncode, r.stdout + r.stderr


def main():
    only = None
    skip_done = "--skip-done" in sys.argv
    if "--only" in sys.argv:
        only = set(sys.argv[sys.argv.index("--only") + 1].split(","))
    res = json.load(open(OUT)) if os.path.exists(OUT) else {}
    vc = sh("git rev-parse --short HEAD", ROOT)[1].strip()
    rc_ = sh("git -C /repo rev-parse --short HEAD")[1].strip()
    names = sorted(d for d in os.listdir(os.path.join(ROOT, "seeded")) if os.path.isdir(os.path.join(ROOT, "seeded", d)))
    for name in names:
        prop = name.split("-")[0]
        if only and prop not in only:
            continue
        if skip_done and res.get(name, {}).get("repo_commit") == rc_ and res[name].get("exit") == 1:
            continue
        if sh("git -C /repo status --porcelain")[1].strip():
            print("/repo is dirty; stopping")
            return 2
        patch = os.path.join(ROOT, "seeded", name, "patch.diff")
        rc, o = sh(f"git -C /repo apply {patch}")
        if rc != 0:
            res[name] = {"exit": None, "error": "patch does not apply", "verif_commit": vc, "repo_commit": rc_}
            print(name, "PATCH DOES NOT APPLY")
            continue
        t0 = time.time()
        try:
            rc, o = sh(f"python3 check.py {prop} quick", ROOT)
        finally:
            sh("git -C /repo checkout -- .")
        lines = [l for l in o.splitlines() if l.startswith(("VIOLATION", "OK ", "KNOWN", "INFRA"))]
        res[name] = {"exit": rc, "wall_s": round(time.time() - t0, 1), "first_lines": lines[:2], "verif_commit": vc, "repo_commit": rc_}
        print(name, "exit", rc, round(time.time() - t0), "s", flush=True)
        json.dump(res, open(OUT, "w"), indent=1, sort_keys=True)
    sh("git checkout -- evidence", ROOT)
    missed = [n for n, r in res.items() if r.get("exit") != 1]
    print("not caught:", missed)
    return 0


if __name__ == "__main__":
    sys.exit(main())
